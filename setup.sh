#!/bin/bash
# Offline setup: make sure Hypothesis imports in /venv; nothing else is built.
set -e
cd "$(dirname "$0")"
/venv/bin/python -c 'import hypothesis' 2>/dev/null || \
  /venv/bin/pip install --no-index --find-links /opt/veriftools/wheels hypothesis
mkdir -p evidence replays
/venv/bin/python -c 'import hypothesis; print("hypothesis", hypothesis.__version__)'
if [ -x selftest/run.sh ]; then selftest/run.sh; fi
