"""Simulated inotify kernel for the dsched engine (C06, C08, C12).

Installed into the *controlled* copy of watchdog.observers.inotify_c by replacing the module names
inotify_init / inotify_add_watch / inotify_rm_watch / os / select / ctypes.  Descriptor numbers are never
re-used and every descriptor has an open->closed state machine: read / poll / write / close on a closed
number is recorded as misuse.  Event records are byte-exact `struct inotify_event` produced by the encoder here.
"""

from __future__ import annotations

import errno
import os as _os
import struct
import types

from vlib.dsched import core

IN_ACCESS, IN_MODIFY, IN_ATTRIB, IN_CLOSE_WRITE, IN_CLOSE_NOWRITE, IN_OPEN = 1, 2, 4, 8, 0x10, 0x20
IN_MOVED_FROM, IN_MOVED_TO, IN_CREATE, IN_DELETE, IN_DELETE_SELF, IN_MOVE_SELF = 0x40, 0x80, 0x100, 0x200, 0x400, 0x800
IN_IGNORED, IN_ISDIR, IN_Q_OVERFLOW = 0x8000, 0x40000000, 0x4000
POLLIN = 1

_kernel = [None]


def K():
    k = _kernel[0]
    if k is None:
        raise RuntimeError("no simulated kernel installed for this run")
    return k


def encode_event(wd, mask, cookie, name: bytes, pad_to=16):
    """struct inotify_event: 16 byte header + NUL padded name (length a multiple of pad_to, at least 1 NUL if named)."""
    if name:
        n = len(name) + 1
        n = (n + pad_to - 1) // pad_to * pad_to
        body = name + b"\0" * (n - len(name))
    else:
        body = b""
    return struct.pack("iIII", wd, mask, cookie, len(body)) + body


class Node:
    __slots__ = ("nid", "kind", "children", "parent", "name")

    def __init__(self, nid, kind):
        self.nid = nid
        self.kind = kind  # 'd' | 'f'
        self.children = {}
        self.parent = None
        self.name = None


class SimKernel:
    def __init__(self):
        self.next_fd = 100
        self.fds = {}  # fd -> dict(kind, open, obj)
        self.misuse = []  # (what, fd, by thread)
        self.calls = {"inotify_init": 0, "inotify_add_watch": 0, "inotify_rm_watch": 0}
        self.faults = {}  # ("inotify_add_watch", call_index) -> errno ; ("inotify_init", idx) -> errno
        self.errno = 0
        self.root = Node(0, "d")
        self.nid = 1
        self.pollers = []  # MThreads blocked in poll
        self.cuts = None  # list of ints: records per read (cyclic); None = as many as fit
        self.cut_i = 0
        self.log = []  # (what, detail)
        self.next_cookie = 1

    # ------------------------------------------------------------------ virtual file system (bytes paths)
    def _lookup(self, path):
        if isinstance(path, str):
            path = _os.fsencode(path)
        parts = [p for p in path.split(b"/") if p and p != b"."]
        n = self.root
        for p in parts:
            if n.kind != "d" or p not in n.children:
                return None
            n = n.children[p]
        return n

    def _path_of(self, node):
        parts = []
        while node.parent is not None:
            parts.append(node.name)
            node = node.parent
        return b"/" + b"/".join(reversed(parts))

    def fs_add(self, path, kind="d"):
        if isinstance(path, str):
            path = _os.fsencode(path)
        parent, _, name = path.rstrip(b"/").rpartition(b"/")
        p = self._lookup(parent) if parent else self.root
        if p is None or p.kind != "d":
            raise FileNotFoundError(errno.ENOENT, "sim: no such directory", path)
        if name in p.children:
            raise FileExistsError(errno.EEXIST, "sim: exists", path)
        n = Node(self.nid, kind)
        self.nid += 1
        n.parent, n.name = p, name
        p.children[name] = n
        return n

    def fs_makedirs(self, path):
        if isinstance(path, str):
            path = _os.fsencode(path)
        cur = b""
        for part in [p for p in path.split(b"/") if p]:
            cur += b"/" + part
            if self._lookup(cur) is None:
                self.fs_add(cur, "d")

    # ------------------------------------------------------------------ descriptors
    def _new_fd(self, kind, obj=None):
        fd = self.next_fd
        self.next_fd += 1
        self.fds[fd] = {"kind": kind, "open": True, "obj": obj}
        return fd

    def _use(self, fd, what):
        ent = self.fds.get(fd)
        cur = core.ACTIVE().current.name if core.ACTIVE() else "?"
        if ent is None:
            self.misuse.append((what + "-unknown-fd", fd, cur))
            return None
        if not ent["open"]:
            self.misuse.append((what + "-after-close", fd, cur))
            return None
        return ent

    def open_fds(self):
        return sorted(fd for fd, e in self.fds.items() if e["open"])

    # ------------------------------------------------------------------ inotify syscalls
    def inotify_init(self):
        i = self.calls["inotify_init"]
        self.calls["inotify_init"] += 1
        f = self.faults.get(("inotify_init", i))
        if f:
            self.errno = f
            return -1
        ino = {"watches": {}, "by_node": {}, "queue": [], "next_wd": 1}
        fd = self._new_fd("inotify", ino)
        ino["fd"] = fd
        return fd

    def inotify_add_watch(self, fd, path, mask):
        i = self.calls["inotify_add_watch"]
        self.calls["inotify_add_watch"] += 1
        ent = self.fds.get(fd)
        self.log.append(("add_watch", fd, bytes(path), ent is not None and ent["open"]))
        f = self.faults.get(("inotify_add_watch", i))
        if f:
            self.errno = f
            return -1
        if ent is None or not ent["open"] or ent["kind"] != "inotify":
            self.errno = errno.EBADF
            return -1
        node = self._lookup(path)
        if node is None:
            self.errno = errno.ENOENT
            return -1
        ino = ent["obj"]
        if node.nid in ino["by_node"]:
            wd = ino["by_node"][node.nid]
            ino["watches"][wd]["mask"] = mask
            return wd
        wd = ino["next_wd"]
        ino["next_wd"] += 1
        ino["watches"][wd] = {"node": node, "mask": mask}
        ino["by_node"][node.nid] = wd
        return wd

    def inotify_rm_watch(self, fd, wd):
        self.calls["inotify_rm_watch"] += 1
        ent = self.fds.get(fd)
        self.log.append(("rm_watch", fd, wd, ent is not None and ent["open"]))
        if ent is None or not ent["open"] or ent["kind"] != "inotify":
            self.errno = errno.EBADF
            return -1
        ino = ent["obj"]
        w = ino["watches"].pop(wd, None)
        if w is None:
            self.errno = errno.EINVAL
            return -1
        del ino["by_node"][w["node"].nid]
        self._queue(ino, encode_event(wd, IN_IGNORED, 0, b""))
        return 0

    def _queue(self, ino, rec):
        # the kernel coalesces an event identical to the newest unread one
        if ino["queue"] and ino["queue"][-1] == rec:
            return False
        ino["queue"].append(rec)
        self._wake_pollers()
        return True

    def _wake_pollers(self):
        s = core.ACTIVE()
        for t in self.pollers:
            s.wake(t)

    # ------------------------------------------------------------------ event sources for the harness
    def inject(self, fd, wd, mask, cookie=0, name=b""):
        """Queue one raw record on inotify instance fd."""
        ent = self.fds[fd]
        return self._queue(ent["obj"], encode_event(wd, mask, cookie, name))

    def notify_node(self, node, mask, cookie=0, name=b""):
        """Deliver an event to every inotify instance watching `node` whose mask selects it."""
        for ent in self.fds.values():
            if ent["kind"] != "inotify" or not ent["open"]:
                continue
            ino = ent["obj"]
            wd = ino["by_node"].get(node.nid)
            if wd is None:
                continue
            if (mask & 0xFFF) & ino["watches"][wd]["mask"] or mask & (IN_IGNORED | IN_Q_OVERFLOW):
                self._queue(ino, encode_event(wd, mask, cookie, name))

    def _drop_watches(self, node):
        for ent in self.fds.values():
            if ent["kind"] != "inotify" or not ent["open"]:
                continue
            ino = ent["obj"]
            wd = ino["by_node"].pop(node.nid, None)
            if wd is not None:
                ino["watches"].pop(wd, None)
                self._queue(ino, encode_event(wd, IN_IGNORED, 0, b""))

    # file-system operations with inotify(7) semantics (the handful the checks use)
    def op_mkdir(self, path):
        n = self.fs_add(path, "d")
        self.notify_node(n.parent, IN_CREATE | IN_ISDIR, 0, n.name)
        return n

    def op_create(self, path):
        n = self.fs_add(path, "f")
        self.notify_node(n.parent, IN_CREATE, 0, n.name)
        self.notify_node(n.parent, IN_OPEN, 0, n.name)
        self.notify_node(n.parent, IN_CLOSE_WRITE, 0, n.name)
        return n

    def op_unlink(self, path):
        n = self._lookup(path)
        del n.parent.children[n.name]
        self.notify_node(n.parent, IN_DELETE, 0, n.name)

    def op_rmdir(self, path):
        n = self._lookup(path)
        assert n.kind == "d" and not n.children
        del n.parent.children[n.name]
        self.notify_node(n, IN_DELETE_SELF, 0, b"")
        self._drop_watches(n)
        self.notify_node(n.parent, IN_DELETE | IN_ISDIR, 0, n.name)

    def op_rename(self, src, dst):
        n = self._lookup(src)
        if isinstance(dst, str):
            dst = _os.fsencode(dst)
        dparent, _, dname = dst.rstrip(b"/").rpartition(b"/")
        dp = self._lookup(dparent)
        cookie = self.next_cookie
        self.next_cookie += 1
        isd = IN_ISDIR if n.kind == "d" else 0
        oldp, oldn = n.parent, n.name
        del oldp.children[oldn]
        n.parent, n.name = dp, dname
        dp.children[dname] = n
        self.notify_node(oldp, IN_MOVED_FROM | isd, cookie, oldn)
        self.notify_node(dp, IN_MOVED_TO | isd, cookie, dname)

    def op_rmtree_root(self, path):
        """Remove a whole watched tree bottom-up."""
        n = self._lookup(path)

        def rec(x):
            for c in list(x.children.values()):
                if c.kind == "d":
                    rec(c)
                else:
                    self.op_unlink(self._path_of(c))
            if x.parent is not None:
                self.op_rmdir(self._path_of(x))

        rec(n)

    # ------------------------------------------------------------------ os / select layer
    def pipe(self):
        p = {"data": b""}
        r = self._new_fd("pipe_r", p)
        w = self._new_fd("pipe_w", p)
        return r, w

    def write(self, fd, data):
        ent = self._use(fd, "write")
        if ent is None:
            raise OSError(errno.EBADF, "sim: bad file descriptor")
        ent["obj"]["data"] += data
        self._wake_pollers()
        return len(data)

    def close(self, fd):
        ent = self.fds.get(fd)
        cur = core.ACTIVE().current.name if core.ACTIVE() else "?"
        if ent is None:
            self.misuse.append(("close-unknown-fd", fd, cur))
            raise OSError(errno.EBADF, "sim: bad file descriptor")
        if not ent["open"]:
            self.misuse.append(("close-after-close", fd, cur))
            raise OSError(errno.EBADF, "sim: bad file descriptor")
        ent["open"] = False
        self.log.append(("close", fd, cur))
        # a poller blocked on this descriptor would sleep on a dead descriptor: record, wake so that it can notice
        self._wake_pollers()

    def readable(self, fd):
        ent = self.fds.get(fd)
        if ent is None or not ent["open"]:
            return False
        if ent["kind"] == "inotify":
            return bool(ent["obj"]["queue"])
        if ent["kind"] == "pipe_r":
            return bool(ent["obj"]["data"])
        return False

    def read(self, fd, size):
        ent = self._use(fd, "read")
        if ent is None:
            raise OSError(errno.EBADF, "sim: bad file descriptor")
        s = core.ACTIVE()
        s.yield_point(("sim.read", fd))
        if ent["kind"] == "pipe_r":
            while not ent["obj"]["data"]:
                self.pollers.append(s.current)
                try:
                    s.block(("read", fd))
                finally:
                    self.pollers.remove(s.current)
            d, ent["obj"]["data"] = ent["obj"]["data"][:size], ent["obj"]["data"][size:]
            return d
        q = ent["obj"]["queue"]
        while not q:
            self.pollers.append(s.current)
            try:
                s.block(("read", fd))
            finally:
                self.pollers.remove(s.current)
            if not ent["open"]:
                self.misuse.append(("read-after-close", fd, s.current.name))
                raise OSError(errno.EBADF, "sim: bad file descriptor")
        limit = None
        if self.cuts:
            limit = self.cuts[self.cut_i % len(self.cuts)]
            self.cut_i += 1
        out = b""
        n = 0
        while q and len(out) + len(q[0]) <= size and (limit is None or n < limit):
            out += q.pop(0)
            n += 1
        if not out:
            raise OSError(errno.EINVAL, "sim: buffer too small")
        return out


class _Poll:
    def __init__(self):
        self.fds = []

    def register(self, fd, mask=POLLIN):
        self.fds.append(fd)

    def unregister(self, fd):
        self.fds.remove(fd)

    def poll(self, timeout=None):
        k = K()
        s = core.ACTIVE()
        s.yield_point(("sim.poll",))
        cur = s.current
        while True:
            for fd in self.fds:
                ent = k.fds.get(fd)
                if ent is None or not ent["open"]:
                    k.misuse.append(("poll-after-close", fd, cur.name))
                    return [(fd, 0x20)]  # POLLNVAL
            ready = [(fd, POLLIN) for fd in self.fds if k.readable(fd)]
            if ready:
                return ready
            k.pollers.append(cur)
            try:
                deadline = None if timeout is None or timeout < 0 else s.now + timeout / 1000.0
                ok = s.block(("poll", tuple(self.fds)), deadline)
            finally:
                if cur in k.pollers:
                    k.pollers.remove(cur)
            if not ok:
                return []


class _OsPath:
    def __getattr__(self, name):
        return getattr(_os.path, name)

    @staticmethod
    def isdir(p):
        n = K()._lookup(p)
        return n is not None and n.kind == "d"

    @staticmethod
    def islink(p):
        return False

    @staticmethod
    def exists(p):
        return K()._lookup(p) is not None


class _Os:
    path = _OsPath()

    def __getattr__(self, name):
        return getattr(_os, name)

    @staticmethod
    def read(fd, n):
        return K().read(fd, n)

    @staticmethod
    def write(fd, data):
        return K().write(fd, data)

    @staticmethod
    def close(fd):
        return K().close(fd)

    @staticmethod
    def pipe():
        return K().pipe()

    @staticmethod
    def walk(top, topdown=True, onerror=None, followlinks=False):
        k = K()
        n = k._lookup(top)
        if n is None or n.kind != "d":
            return
        stack = [(top, n)]
        while stack:
            p, node = stack.pop(0)
            dirs = sorted(c for c, x in node.children.items() if x.kind == "d")
            files = sorted(c for c, x in node.children.items() if x.kind == "f")
            if isinstance(p, str):
                dirs, files = [_os.fsdecode(d) for d in dirs], [_os.fsdecode(f) for f in files]
            yield p, dirs, files
            for d in dirs:
                child = node.children[_os.fsencode(d) if isinstance(d, str) else d]
                stack.append((_os.path.join(p, d), child))


def install(W):
    """Patch the controlled inotify_c module (idempotent)."""
    mod = W.inotify_c
    if getattr(mod, "_simkernel", False):
        return
    mod.inotify_init = lambda: K().inotify_init()
    mod.inotify_add_watch = lambda fd, path, mask: K().inotify_add_watch(fd, path, mask)
    mod.inotify_rm_watch = lambda fd, wd: K().inotify_rm_watch(fd, wd)
    mod.os = _Os()
    sel = types.SimpleNamespace(poll=_Poll, POLLIN=POLLIN, select=None)
    mod.select = sel
    real_ctypes = mod.ctypes

    class _Ct:
        def __getattr__(self, name):
            return getattr(real_ctypes, name)

        @staticmethod
        def get_errno():
            return K().errno

    mod.ctypes = _Ct()
    mod._simkernel = True


def new_kernel():
    k = SimKernel()
    _kernel[0] = k
    return k
