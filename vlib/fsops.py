"""E1 `fsops`: generated operation histories against the real kernel and the public Observer API.

Model tree, op alphabet (fixed syscalls per op), burst generator with the directory pacing rule,
executor, observer session with sentinel drain, replay / probe helpers.
"""

from __future__ import annotations

import itertools
import os
import shutil
import stat
import threading
import time

from hypothesis import strategies as st

from vlib.runner import Inconclusive

SENT = "__s"
PROBE = "__p"
SCRATCH = os.environ.get("VERIF_SCRATCH") or ("/dev/shm" if os.path.isdir("/dev/shm") and os.access("/dev/shm", os.W_OK) else "/tmp")
_counter = itertools.count()

DIR_OPS = {"mkdir", "makedirs", "rmdir", "rmtree", "rename", "replace", "move_out", "move_in"}

# ----------------------------------------------------------------------------- model


class Model:
    """tree: rel path -> (kind, eid); '' is the root.  out: name -> subtree dict rel -> (kind, eid) ('' = top)."""

    def __init__(self):
        self.tree = {"": ("d", 0)}
        self.out = {}
        self.eid = itertools.count(1)
        self.outn = itertools.count(1)

    def copy(self):
        m = Model.__new__(Model)
        m.tree = dict(self.tree)
        m.out = {k: dict(v) for k, v in self.out.items()}
        m.eid = itertools.count(next(self.eid))
        m.outn = itertools.count(next(self.outn))
        return m

    # -- queries
    def kind(self, p):
        return self.tree[p][0] if p in self.tree else None

    def sub(self, p):
        pre = p + "/" if p else ""
        return {q: v for q, v in self.tree.items() if q == p or (q.startswith(pre) and q != p)}

    def children(self, p):
        pre = p + "/" if p else ""
        return [q for q in self.tree if q != p and q.startswith(pre) and "/" not in q[len(pre) :]]

    def dirs(self):
        return sorted(p for p, v in self.tree.items() if v[0] == "d")

    def files(self):
        return sorted(p for p, v in self.tree.items() if v[0] == "f")

    # -- mutation
    def add(self, p, kind):
        self.tree[p] = (kind, next(self.eid))

    def remove_sub(self, p):
        s = self.sub(p)
        for q in s:
            del self.tree[q]
        return s

    def move_sub(self, s, d):
        sub = self.remove_sub(s)
        self.remove_sub(d) if d in self.tree else None
        for q, v in sub.items():
            self.tree[d + q[len(s) :]] = v
        return sub


def parent(p):
    return p.rpartition("/")[0]


def join(d, n):
    return d + "/" + n if d else n


def apply_op(m: Model, op):
    """Apply op to the model.  Raises ValueError if the op is not valid in this state."""
    k = op[0]
    if k == "sleep":
        return
    if k in ("create", "mkdir"):
        p = op[1]
        if p in m.tree or m.kind(parent(p)) != "d":
            raise ValueError(op)
        m.add(p, "f" if k == "create" else "d")
    elif k == "makedirs":
        p, content = op[1], op[2]
        if p in m.tree or m.kind(parent(p)) != "d":
            raise ValueError(op)
        m.add(p, "d")
        for rel, kind in content:
            q = join(p, rel)
            if q in m.tree or m.kind(parent(q)) != "d":
                raise ValueError(op)
            m.add(q, kind)
    elif k in ("write", "read"):
        if m.kind(op[1]) != "f":
            raise ValueError(op)
    elif k == "chmod":
        if op[1] not in m.tree or op[1] == "":
            raise ValueError(op)
    elif k == "unlink":
        if m.kind(op[1]) != "f":
            raise ValueError(op)
        m.remove_sub(op[1])
    elif k == "rmdir":
        if m.kind(op[1]) != "d" or op[1] == "" or m.children(op[1]):
            raise ValueError(op)
        m.remove_sub(op[1])
    elif k == "rmtree":
        if m.kind(op[1]) != "d" or op[1] == "":
            raise ValueError(op)
        m.remove_sub(op[1])
    elif k == "rename":
        s, d = op[1], op[2]
        if s not in m.tree or s == "" or d in m.tree or m.kind(parent(d)) != "d" or d == s or d.startswith(s + "/"):
            raise ValueError(op)
        m.move_sub(s, d)
    elif k == "replace":
        s, d = op[1], op[2]
        if s not in m.tree or d not in m.tree or s == "" or d == "" or s == d or d.startswith(s + "/") or s.startswith(d + "/"):
            raise ValueError(op)
        if m.kind(s) != m.kind(d) or (m.kind(d) == "d" and m.children(d)):
            raise ValueError(op)
        m.move_sub(s, d)
    elif k == "move_out":
        s, name = op[1], op[2]
        if s not in m.tree or s == "" or name in m.out:
            raise ValueError(op)
        sub = m.remove_sub(s)
        m.out[name] = {q[len(s) :].lstrip("/"): v for q, v in sub.items()}
    elif k == "move_in":
        name, d = op[1], op[2]
        if name not in m.out or d == "" or m.kind(parent(d)) != "d":
            raise ValueError(op)
        if d in m.tree and (m.kind(d) != m.out[name][""][0] or (m.kind(d) == "d" and m.children(d))):
            raise ValueError(op)  # rename(2) replaces a file by a file and an EMPTY directory by a directory only
        sub = m.out.pop(name)
        for rel, v in sub.items():
            m.tree[join(d, rel) if rel else d] = v
    elif k == "ext_create":
        name, rel = op[1], op[2]
        t = m.out.get(name)
        if t is None or rel in t or t.get(parent(rel), ("x",))[0] != "d":
            raise ValueError(op)
        t[rel] = ("f", next(m.eid))
    elif k == "ext_mkdir":
        name, rel = op[1], op[2]
        t = m.out.get(name)
        if t is None or rel in t or t.get(parent(rel), ("x",))[0] != "d":
            raise ValueError(op)
        t[rel] = ("d", next(m.eid))
    elif k == "ext_write":
        name, rel = op[1], op[2]
        t = m.out.get(name)
        if t is None or t.get(rel, ("x",))[0] != "f":
            raise ValueError(op)
    elif k == "ext_unlink":
        name, rel = op[1], op[2]
        t = m.out.get(name)
        if t is None or t.get(rel, ("x",))[0] != "f" or rel == "":
            raise ValueError(op)
        del t[rel]
    elif k == "ext_rmtree":
        name = op[1]
        if name not in m.out:
            raise ValueError(op)
        del m.out[name]
    elif k == "ext_rename":  # rename inside out/: out/name -> out/name2
        name, name2 = op[1], op[2]
        if name not in m.out or name2 in m.out:
            raise ValueError(op)
        m.out[name2] = m.out.pop(name)
    elif k == "prebuild":  # build a tree in out/ (no notification inside the watched tree)
        name, content = op[1], op[2]
        if name in m.out:
            raise ValueError(op)
        t = {"": (op[3], next(m.eid))}
        for rel, kind in content:
            if rel in t or t.get(parent(rel), ("x",))[0] != "d":
                raise ValueError(op)
            t[rel] = (kind, next(m.eid))
        m.out[name] = t
    elif k == "rmroot":
        m.tree.clear()
    else:
        raise ValueError(op)


# ----------------------------------------------------------------------------- executor (fixed syscalls per op)


def _touch(p):
    fd = os.open(p, os.O_CREAT | os.O_EXCL | os.O_WRONLY, 0o644)
    os.close(fd)


def _rmtree(p):
    for d, dirs, files in os.walk(p, topdown=False):
        for f in files:
            os.unlink(os.path.join(d, f))
        for s in dirs:
            q = os.path.join(d, s)
            if os.path.islink(q):
                os.unlink(q)  # a link to a directory (os.walk lists it under dirs)
            else:
                os.rmdir(q)
    os.rmdir(p)


def exec_op(op, root, out):
    """root/out: absolute str paths of the watched root and the outside area."""
    k = op[0]
    R = lambda p: os.path.join(root, p) if p else root  # noqa: E731
    O = lambda n, rel="": os.path.join(out, n, rel) if rel else os.path.join(out, n)  # noqa: E731
    if k == "sleep":
        time.sleep(op[1] / 1000.0)
    elif k == "create":
        _touch(R(op[1]))
    elif k == "mkdir":
        os.mkdir(R(op[1]))
    elif k == "makedirs":
        os.mkdir(R(op[1]))
        for rel, kind in op[2]:
            q = os.path.join(R(op[1]), rel)
            os.mkdir(q) if kind == "d" else _touch(q)
    elif k == "write":
        fd = os.open(R(op[1]), os.O_WRONLY | os.O_APPEND)
        os.write(fd, b"x")
        os.close(fd)
    elif k == "read":
        fd = os.open(R(op[1]), os.O_RDONLY)
        os.close(fd)
    elif k == "chmod":
        p = R(op[1])
        m = stat.S_IMODE(os.lstat(p).st_mode)
        os.chmod(p, m ^ 0o010)
    elif k == "unlink":
        os.unlink(R(op[1]))
    elif k == "rmdir":
        os.rmdir(R(op[1]))
    elif k == "rmtree":
        _rmtree(R(op[1]))
    elif k in ("rename", "replace"):
        os.rename(R(op[1]), R(op[2]))
    elif k == "move_out":
        os.rename(R(op[1]), O(op[2]))
    elif k == "move_in":
        os.rename(O(op[1]), R(op[2]))
    elif k == "ext_create":
        _touch(O(op[1], op[2]))
    elif k == "ext_mkdir":
        os.mkdir(O(op[1], op[2]))
    elif k == "ext_write":
        fd = os.open(O(op[1], op[2]), os.O_WRONLY | os.O_APPEND)
        os.write(fd, b"x")
        os.close(fd)
    elif k == "ext_unlink":
        os.unlink(O(op[1], op[2]))
    elif k == "ext_rmtree":
        p = O(op[1])
        _rmtree(p) if os.path.isdir(p) else os.unlink(p)
    elif k == "ext_rename":
        os.rename(O(op[1]), O(op[2]))
    elif k == "prebuild":
        p = O(op[1])
        if op[3] == "d":
            os.mkdir(p)
            for rel, kind in op[2]:
                q = os.path.join(p, rel)
                os.mkdir(q) if kind == "d" else _touch(q)
        else:
            _touch(p)
    elif k == "rmroot":
        for n in os.listdir(root):
            q = os.path.join(root, n)
            _rmtree(q) if os.path.isdir(q) and not os.path.islink(q) else os.unlink(q)
        os.rmdir(root)
    else:
        raise AssertionError(op)


def disk_tree(root, recursive=True):
    """rel path -> kind from os.walk + lstat, sentinel/probe files excluded."""
    out = {"": "d"}
    for d, dirs, files in os.walk(root):
        rel = os.path.relpath(d, root)
        rel = "" if rel == "." else rel
        for n in dirs:
            out[join(rel, n)] = "d"
        for n in files:
            if rel == "" and n.startswith(SENT) or n.startswith(PROBE):
                continue
            out[join(rel, n)] = "f"
        if not recursive:
            break
    return out


# ----------------------------------------------------------------------------- pacing rule


class Pacing:
    """State of one burst: which names are blocked by an earlier directory op of the burst."""

    def __init__(self):
        self.blocked = set()  # dir names (old or new) changed in this burst
        self.arrived = set()  # dirs that arrived in this burst (may be renamed again at once)
        self.out_blocked = set()  # out/ names of directories that left the tree in this burst

    def _hits(self, p):
        return any(p == b or p.startswith(b + "/") for b in self.blocked)

    def _covers(self, p):
        """p is an ancestor-or-self of a blocked name"""
        return any(b == p or b.startswith(p + "/") for b in self.blocked)

    def allows(self, op, model):
        k = op[0]
        if k in ("sleep", "prebuild"):
            return True
        if k.startswith("ext_"):
            # the contents of a directory that has just left the tree are not touched before the stream drained; the
            # directory itself may be renamed out there, or removed if it is empty - that touches no contents
            if k == "ext_rename":
                return op[2] not in self.out_blocked
            if k == "ext_rmtree" and op[1] in self.out_blocked:
                return len(model.out.get(op[1], {})) <= 1
            return op[1] not in self.out_blocked
        # (a directory that has just left may come straight back under another name: that neither touches its contents
        # nor re-uses one of its names; its old name and its contents stay blocked for the rest of the burst)
        paths = [x for x in op[1:3] if isinstance(x, str)]
        if k == "move_out":
            paths = [op[1]]
        elif k == "move_in":
            paths = [op[2]]
        is_dir_subject = k in ("mkdir", "makedirs", "rmdir", "rmtree") or (k in ("rename", "replace", "move_out") and model.kind(op[1]) == "d") or (k == "move_in" and model.out[op[1]][""][0] == "d")
        if k == "rename" and is_dir_subject and op[1] in self.arrived and not self._hits(op[2]) and not self._covers(op[2]):
            # the directory that has just arrived may be renamed again right away
            others = self.blocked - {op[1]}
            if not any(op[1].startswith(b + "/") for b in others):
                return True
        for p in paths:
            if self._hits(p):
                return False
            if is_dir_subject and k not in ("rename", "move_out") and self._covers(p):
                return False  # creating / removing something onto an ancestor name of a blocked directory
            if is_dir_subject and k in ("rename", "move_out") and p == op[2 if k == "rename" else 1] and k == "rename" and self._covers(p):
                return False  # the destination of a rename may not be an ancestor name of a blocked directory
        return True

    def note(self, op, model_before):
        k = op[0]
        if k in ("mkdir", "makedirs"):
            self.blocked.add(op[1])
            self.arrived.add(op[1])
        elif k in ("rmdir", "rmtree"):
            self.blocked.add(op[1])
        elif k in ("rename", "replace") and model_before.kind(op[1]) == "d":
            self.blocked.update((op[1], op[2]))
            self.arrived.discard(op[1])
            self.arrived.add(op[2])
        elif k == "move_out" and model_before.kind(op[1]) == "d":
            self.blocked.add(op[1])
            self.out_blocked.add(op[2])
        elif k == "move_in" and model_before.out[op[1]][""][0] == "d":
            self.blocked.add(op[2])
            self.arrived.add(op[2])
        elif k == "ext_rename" and op[1] in self.out_blocked:
            self.out_blocked.add(op[2])  # the same directory under its new name out there


class NoPacing(Pacing):
    """For checks whose statement has no pacing condition (C07: no history may kill a thread)."""

    def allows(self, op, model):
        return True


def check_pacing(bursts, model):
    """True iff the history respects the pacing rule from the given start model (used by replay/ddmin)."""
    m = model.copy()
    for burst in bursts:
        pc = Pacing()
        for op in burst:
            op = tuple(op)
            before = m.copy()
            try:
                apply_op(m, op)
                if not pc.allows(op, before):
                    return False
            except (ValueError, KeyError, IndexError, TypeError):
                return False
            pc.note(op, before)
    return True


# ----------------------------------------------------------------------------- generator

# "a" / "ab": sibling names of which one is a string prefix of the other (textual prefix tests without a separator
# boundary confuse them); "b" unrelated
NAMES = ["a", "ab", "b"]


def candidate_ops(m: Model, opts):
    """All ops valid in model state m (bounded by depth/names)."""
    names = opts.get("names", NAMES)
    maxdepth = opts.get("depth", 3)
    ops = []
    dirs = [d for d in m.dirs() if d.count("/") + (1 if d else 0) < maxdepth]
    free = [join(d, n) for d in dirs for n in names if join(d, n) not in m.tree]
    for p in free:
        ops.append(("create", p))
        ops.append(("mkdir", p))
        if opts.get("makedirs") and p.count("/") + 2 < maxdepth + 1:
            ops.append(("makedirs", p, None))
    for f in m.files():
        ops += [("write", f), ("read", f), ("chmod", f), ("unlink", f)]
    for d in m.dirs():
        if d == "":
            continue
        ops.append(("chmod", d))
        if not m.children(d):
            ops.append(("rmdir", d))
        ops.append(("rmtree", d))
    for s in sorted(m.tree):
        if s == "":
            continue
        depth_s = max(q.count("/") for q in m.sub(s)) - s.count("/")
        for d in free:
            if d == s or d.startswith(s + "/"):
                continue
            if d.count("/") + depth_s < maxdepth:
                ops.append(("rename", s, d))
        for d in sorted(m.tree):
            if d in ("", s) or d.startswith(s + "/") or s.startswith(d + "/"):
                continue
            if m.kind(s) == m.kind(d) and not (m.kind(d) == "d" and m.children(d)):
                ops.append(("replace", s, d))
        if opts.get("boundary", True):
            ops.append(("move_out", s, None))
    if opts.get("ext"):
        for name in sorted(m.out):
            sub = m.out[name]
            if sub[""][0] == "d":
                dirs_o = [r for r, v in sub.items() if v[0] == "d" and (r.count("/") + 1 if r else 0) < maxdepth - 1]
                for r in dirs_o:
                    for n in names:
                        q = join(r, n)
                        if q not in sub:
                            ops.append(("ext_create", name, q))
                            ops.append(("ext_mkdir", name, q))
                for r, v in sub.items():
                    if v[0] == "f":
                        ops.append(("ext_write", name, r))
                        ops.append(("ext_unlink", name, r))
            ops.append(("ext_rmtree", name))
            ops.append(("ext_rename", name, None))
    if opts.get("boundary", True):
        for name in sorted(m.out):
            sub = m.out[name]
            depth_s = max(q.count("/") + 1 if q else 0 for q in sub)
            for d in free:
                if d.count("/") + depth_s < maxdepth:
                    ops.append(("move_in", name, d))
            if opts.get("move_in_replace"):
                # ... or onto an existing file / empty directory of the same kind, which rename(2) replaces silently
                for d in sorted(m.tree):
                    if d and m.kind(d) == sub[""][0] and not (m.kind(d) == "d" and m.children(d)) and d.count("/") + depth_s < maxdepth:
                        ops.append(("move_in", name, d))
    return ops


WEIGHT = {
    "create": 3, "mkdir": 4, "write": 2, "read": 1, "chmod": 1, "unlink": 2, "rmdir": 1, "rmtree": 2,
    "rename": 6, "replace": 2, "move_out": 3, "move_in": 5,
}  # fmt: skip


def draw_op(draw, m, pc, opts):
    cands = [op for op in candidate_ops(m, opts) if (op[0] != "move_out" or True)]
    cands = [op for op in cands if pc.allows(op if op[0] not in ("move_out", "ext_rename") else (op[0], op[1], "x"), m)]
    if opts.get("exclude"):
        cands = [op for op in cands if not opts["exclude"](op, m, pc)]
    if not cands:
        return None
    bias = opts.get("_reuse")
    if bias is not None and draw(st.integers(0, 2)) == 0:
        # prefer re-using names of directories that left / were removed, removing the re-born ones, and
        # removing directories that were moved out
        hot = [
            op for op in cands
            if (op[0] in ("mkdir", "makedirs") and op[1] in bias["gone"])
            or (op[0] in ("rename", "move_in") and op[2] in bias["gone"])
            or (op[0] in ("rmdir", "rmtree", "move_out") and op[1] in bias["reborn"])
            or (op[0] == "ext_rmtree" and op[1] in bias["left"])
        ]
        if hot:
            cands = hot
    kinds = sorted({op[0] for op in cands})
    wt = dict(WEIGHT, makedirs=4)
    wt.update(opts.get("weights") or {})
    kind = draw(st.sampled_from([k for k in kinds for _ in range(wt.get(k, 1))] or kinds))
    sub = [op for op in cands if op[0] == kind]
    if kind in ("rename", "replace", "move_out", "rmtree") and draw(st.integers(0, 2)) > 0:
        dsub = [op for op in sub if m.kind(op[1]) == "d"]
        sub = dsub or sub
    op = draw(st.sampled_from(sub))
    if kind == "move_out":
        op = ("move_out", op[1], f"o{next(m.outn)}")
    elif kind == "ext_rename":
        op = ("ext_rename", op[1], f"o{next(m.outn)}")
    elif kind == "makedirs":
        # nested creation burst: the directory plus generated content, issued back to back
        room = opts.get("depth", 3) - (op[1].count("/") + 1)
        t = {"": "d"}
        content = []
        for _ in range(draw(st.integers(1, 5))):
            ds = sorted(d for d, k in t.items() if k == "d" and (d.count("/") + 1 if d else 0) < room)
            if not ds:
                break
            d = draw(st.sampled_from(ds))
            n = draw(st.sampled_from(opts.get("names", NAMES)))
            q = join(d, n)
            if q in t:
                continue
            t[q] = draw(st.sampled_from("dfd"))
            content.append([q, t[q]])
        op = ("makedirs", op[1], content)
    return op


@st.composite
def histories(draw, opts):
    """opts: dict(max_bursts, max_ops, names, depth, boundary, init ('empty'|'random'), prebuilt (bool), exclude)"""
    m = Model()
    init_ops = []
    if opts.get("init", "random") == "random":
        pcx = Pacing()
        o2 = dict(opts, boundary=False, exclude=None)
        for _ in range(draw(st.integers(0, 7))):
            cands = [op for op in candidate_ops(m, o2) if op[0] in ("create", "mkdir")]
            if not cands:
                break
            op = draw(st.sampled_from(cands))
            apply_op(m, op)
            init_ops.append(list(op))
    if opts.get("prebuilt", True) and opts.get("boundary", True):
        for _ in range(draw(st.integers(0, 2))):
            name = f"o{next(m.outn)}"
            kind = draw(st.sampled_from("ddf"))
            content = []
            if kind == "d":
                t = {"": "d"}
                for _ in range(draw(st.integers(0, 4))):
                    ds = [d for d, k in t.items() if k == "d" and (d.count("/") + 1 if d else 0) < opts.get("depth", 3) - 1]
                    if not ds:
                        break
                    d = draw(st.sampled_from(sorted(ds)))
                    n = draw(st.sampled_from(opts.get("names", NAMES)))
                    q = join(d, n)
                    if q in t:
                        continue
                    t[q] = draw(st.sampled_from("fd"))
                    content.append([q, t[q]])
            op = ("prebuild", name, content, kind)
            apply_op(m, op)
            init_ops.append(list(op))
    bursts = []
    if opts.get("reuse_bias"):
        opts = dict(opts, _reuse={"gone": set(), "reborn": set(), "left": set()})
    for _ in range(draw(st.integers(1, opts.get("max_bursts", 4)))):
        pc = NoPacing() if opts.get("unpaced") else Pacing()
        burst = []
        n_ops = draw(st.integers(1, opts.get("max_ops", 6)))
        for _ in range(n_ops):
            op = draw_op(draw, m, pc, opts)
            if op is None:
                break
            before = m.copy()
            apply_op(m, op)
            pc.note(op, before)
            burst.append(list(op))
            if opts.get("_reuse") is not None:
                b = opts["_reuse"]
                dirs_before = {p for p, v in before.tree.items() if v[0] == "d"}
                dirs_after = {p for p, v in m.tree.items() if v[0] == "d"}
                b["reborn"] |= (dirs_after - dirs_before) & b["gone"]
                b["gone"] |= dirs_before - dirs_after
                if op[0] == "move_out" and before.kind(op[1]) == "d":
                    b["left"].add(op[2])
            if opts.get("sleeps", True):
                s = draw(st.sampled_from([0, 0, 0, 0, 1, 20]))
                if s:
                    burst.append(["sleep", s])
        if burst:
            bursts.append(burst)
    return {"init": init_ops, "bursts": bursts}


def model_after_init(init_ops):
    m = Model()
    for op in init_ops:
        apply_op(m, tuple(op))
    return m


# ----------------------------------------------------------------------------- observer session


class Recorder:
    def __init__(self):
        self.events = []
        self.cond = threading.Condition()

    def make_handler(self):
        from watchdog.events import FileSystemEventHandler

        rec = self

        class H(FileSystemEventHandler):
            def on_any_event(self, event):
                with rec.cond:
                    rec.events.append(event)
                    rec.cond.notify_all()

        return H()


_thread_errors = []


def _install_excepthook():
    if getattr(threading, "_verif_hook", False):
        return

    def hook(args):
        _thread_errors.append((getattr(args.thread, "name", "?"), type(args.thread).__name__ if args.thread else "?", repr(args.exc_value), _tb(args.exc_traceback)))

    threading.excepthook = hook
    threading._verif_hook = True


def _tb(tb):
    import traceback

    return "".join(traceback.format_tb(tb))[-1500:]


_bufsize = [None]


def _patch_bufsize():
    from watchdog.observers import inotify_c

    if getattr(inotify_c.Inotify, "_verif_patched", False):
        return
    orig = inotify_c.Inotify.read_events

    def read_events(self, *, event_buffer_size=inotify_c.DEFAULT_EVENT_BUFFER_SIZE):
        if _bufsize[0]:
            event_buffer_size = _bufsize[0]
        return orig(self, event_buffer_size=event_buffer_size)

    inotify_c.Inotify.read_events = read_events
    inotify_c.Inotify._verif_patched = True


def with_instances(fn, patience=120.0):
    """Run fn(); if it fails because the per-user limit of inotify instances (128 by default) is exhausted - by other
    checks running on the machine at the same time - wait for instances to become free and try again."""
    import errno

    end = time.monotonic() + patience
    while True:
        try:
            return fn()
        except OSError as e:
            if e.errno != errno.EMFILE or "inotify" not in str(e) or time.monotonic() > end:
                raise
            time.sleep(0.5)


class Session:
    """One observer over a fresh scratch tree.  cfg keys: recursive, bytes, full, bufsize, observer
    ('inotify'|'polling'), spelling ('abs'|'rel'|'slash'), pathtype ('str'|'bytes'|'path'), event_filter (list of
    class names or None), root_name."""

    def __init__(self, cfg, init_ops):
        _install_excepthook()
        _patch_bufsize()
        self.cfg = cfg
        self.base = os.path.join(SCRATCH, f"vf{os.getpid()}_{next(_counter)}")
        shutil.rmtree(self.base, ignore_errors=True)
        self.case = os.path.join(self.base, "case")
        self.root = os.path.join(self.case, cfg.get("root_name", "root"))
        self.out = os.path.join(self.case, "out")
        os.makedirs(self.root)
        os.makedirs(self.out)
        self.model = Model()
        for op in init_ops:
            apply_op(self.model, tuple(op))
            exec_op(tuple(op), self.root, self.out)
        self.start_tree = {p: v[0] for p, v in self.model.tree.items()}
        # symbolic links to directories outside the tree, present before the watch starts (names outside the op universe,
        # unknown to the model; only checks whose oracle does not enumerate the tree use them)
        for rel, slot in cfg.get("links", []):
            os.makedirs(os.path.join(self.out, slot), exist_ok=True)
            os.symlink(os.path.join(self.out, slot), os.path.join(self.root, rel))
        self.oldcwd = os.getcwd()
        tw = cfg.get("twin")
        if cfg.get("spelling", "abs") in ("rel", "relslash") or (tw and tw.get("spelling") in ("rel", "relslash", "reldot")):
            os.chdir(self.case)
        given = self._spell(cfg.get("spelling", "abs"), cfg.get("pathtype", "bytes" if cfg.get("bytes") else "str"))
        self.given = given
        self.rec = Recorder()
        self.handler = self.rec.make_handler()
        _bufsize[0] = cfg.get("bufsize")
        self.err_mark = len(_thread_errors)
        self.nsent = 0
        self.pos = 0
        self.given2 = None

        def build():
            # observer, watches and start() as one unit: a start() that fails because the machine is out of inotify
            # instances drops the emitter it could not start, so the whole thing is set up again
            if cfg.get("observer", "inotify") == "polling":
                from watchdog.observers.polling import PollingObserver

                self.obs = PollingObserver(timeout=cfg.get("poll", 0.03))
            else:
                from watchdog.observers.inotify import InotifyObserver

                self.obs = InotifyObserver(generate_full_events=bool(cfg.get("full")))
            flt = cfg.get("event_filter")
            if flt is not None:
                from watchdog import events as ev

                flt = [getattr(ev, n) for n in flt]
            kw = {"follow_symlink": True} if cfg.get("follow_symlink") else {}
            self.watch = self.obs.schedule(self.handler, given, recursive=bool(cfg.get("recursive", True)), event_filter=flt, **kw)
            self.given2 = None
            if tw:
                # the same directory scheduled a second time on the same observer, under another spelling, for another handler
                self.given2 = self._spell(tw.get("spelling", "abs"), tw.get("pathtype", "str"))
                self.rec2 = Recorder()
                self.handler2 = self.rec2.make_handler()
                self.pos2 = 0
                if tw.get("first"):
                    self.obs.unschedule(self.watch)
                    self.watch2 = self.obs.schedule(self.handler2, self.given2, recursive=bool(cfg.get("recursive", True)), event_filter=flt)
                    self.watch = self.obs.schedule(self.handler, given, recursive=bool(cfg.get("recursive", True)), event_filter=flt)
                else:
                    self.watch2 = self.obs.schedule(self.handler2, self.given2, recursive=bool(cfg.get("recursive", True)), event_filter=flt)
            try:
                self.obs.start()
            except BaseException:
                try:
                    self.obs.stop()
                except Exception:  # noqa: BLE001
                    pass
                raise

        with_instances(build)
        self.closed = False

    def _spell(self, spelling, pt):
        cfg = self.cfg
        given = self.root
        if spelling in ("rel", "relslash", "reldot"):
            given = cfg.get("root_name", "root")
        if spelling in ("slash", "relslash"):
            given = given + "/"
        if spelling in ("dot", "reldot"):
            given = given + "/."
        if pt == "bytes":
            given = os.fsencode(given)
        elif pt == "path":
            import pathlib

            given = pathlib.Path(given)
        return given

    # -- paths
    def twin_events(self, cap=20.0):
        """Events the second handler got since the last call, after waiting for the newest sentinel to show up there."""
        name = f"{SENT}{self.nsent}"
        end = time.monotonic() + cap
        ok = False
        with self.rec2.cond:
            while True:
                if any(self.norm(e.src_path, self.given2) == name and e.event_type == "created" for e in self.rec2.events[self.pos2 :]):
                    ok = True
                    break
                left = end - time.monotonic()
                if left <= 0:
                    break
                self.rec2.cond.wait(min(left, 1.0))
            evs = self.rec2.events[self.pos2 :]
            self.pos2 = len(self.rec2.events)
        return evs, ok

    def norm(self, p, g=None):
        """event path -> rel path inside root ('' for root) or None if outside; p str/bytes."""
        if isinstance(p, bytes):
            p = os.fsdecode(p)
        g = self.given if g is None else g
        if isinstance(g, bytes):
            g = os.fsdecode(g)
        g = str(g)
        if p == g or p == g.rstrip("/"):
            return ""
        pre = g if g.endswith("/") else g + "/"
        if p.startswith(pre):
            return p[len(pre) :]
        return None

    def sentinel_names(self):
        return {f"{SENT}{i}" for i in range(self.nsent + 1)}

    # -- running
    def run_burst(self, burst):
        for op in burst:
            op = tuple(op)
            apply_op(self.model, op)
            exec_op(op, self.root, self.out)

    def thread_errors(self):
        return _thread_errors[self.err_mark :]

    def _wait_for(self, pred, timeout):
        end = time.monotonic() + timeout
        with self.rec.cond:
            while True:
                for i in range(self._scan, len(self.rec.events)):
                    if pred(self.rec.events[i]):
                        return i
                self._scan = len(self.rec.events)
                left = end - time.monotonic()
                if left <= 0 or self.thread_errors():
                    return None  # (a library thread that died will not answer: the caller reports it)
                self.rec.cond.wait(min(left, 1.0))

    def drain(self, cap=20.0, tries=3, sentinel_dir=""):
        """Create a sentinel file and wait for its event; return events delivered since the last drain, sentinel
        events removed.  Returns (events, ok)."""
        from watchdog.events import FileClosedEvent, FileCreatedEvent

        polling = self.cfg.get("observer") == "polling"
        ok = False
        for _ in range(tries):
            if self.thread_errors():
                break
            self.nsent += 1
            name = f"{SENT}{self.nsent}"
            p = os.path.join(self.root, name)
            self._scan = self.pos
            try:
                _touch(p)
            except OSError:
                break

            def pred(e, name=name):
                if polling:
                    return isinstance(e, FileCreatedEvent) and self.norm(e.src_path) == name
                flt = self.cfg.get("event_filter")
                if flt is not None and "FileClosedEvent" not in flt:
                    return self.norm(e.src_path) == name and isinstance(e, FileCreatedEvent)
                return isinstance(e, FileClosedEvent) and self.norm(e.src_path) == name

            i = self._wait_for(pred, cap)
            if i is not None:
                ok = True
                break
        with self.rec.cond:
            evs = self.rec.events[self.pos :]
            self.pos = len(self.rec.events)
        return [e for e in evs if not self.is_sentinel_event(e)], ok

    def is_sentinel_event(self, e):
        for p in (e.src_path, e.dest_path):
            if p:
                r = self.norm(p)
                if r is not None and "/" not in r and r.startswith(SENT):
                    return True
        return False

    def close(self):
        if self.closed:
            return
        self.closed = True
        try:
            # a library that has dead-locked must not take the harness with it: the verdict of the case was reached
            # before this point (stop() blocking forever is C06's subject)
            t = threading.Thread(target=lambda: (self.obs.stop(), self.obs.join(10)), daemon=True)
            t.start()
            t.join(20)
            self.stop_blocked = t.is_alive()
        finally:
            os.chdir(self.oldcwd)
            _bufsize[0] = None
            shutil.rmtree(self.base, ignore_errors=True)


# ----------------------------------------------------------------------------- replay oracle (C01 & friends)


def replay_events(tree, events, norm):
    """tree: rel -> kind ('f'/'d'); apply created/deleted/moved events in order (lenient application)."""
    from watchdog import events as ev

    def rm(p):
        for q in [q for q in tree if q == p or q.startswith(p + "/")]:
            del tree[q]

    for e in events:
        kind = "d" if e.is_directory else "f"
        if isinstance(e, (ev.FileCreatedEvent, ev.DirCreatedEvent)):
            p = norm(e.src_path)
            if p:
                tree[p] = kind
        elif isinstance(e, (ev.FileDeletedEvent, ev.DirDeletedEvent)):
            p = norm(e.src_path)
            if p:
                rm(p)
            elif p == "":
                tree.clear()
        elif isinstance(e, ev.FileSystemMovedEvent):
            s = norm(e.src_path) if e.src_path else None
            d = norm(e.dest_path) if e.dest_path else None
            if e.is_synthetic:
                if s:
                    rm(s)
                if d:
                    tree[d] = kind
                continue
            if s and d:
                if s in tree:
                    sub = {q: v for q, v in tree.items() if q == s or q.startswith(s + "/")}
                    rm(s)
                    rm(d)
                    for q, v in sub.items():
                        tree[d + q[len(s) :]] = v
                    tree[d] = kind  # the moved event carries the flavour of the entry
                else:
                    rm(d)
                    tree[d] = kind
            elif d:
                rm(d)
                tree[d] = kind
            elif s:
                rm(s)
    return tree


def scope(tree, recursive):
    if recursive:
        return dict(tree)
    return {p: k for p, k in tree.items() if "/" not in p}


def normalized_history(case):
    """Canonical form of a history for distinctness: sleeps dropped."""
    return [[op for op in b if op[0] != "sleep"] for b in case["bursts"]], case["init"]
