"""Justification rule for delivered events (C03 soundness, also used by C07/C11/C19) and the per-operation
contract (C03 completeness).  Everything here is derived from the operation history and the model, never
from the library's output."""

from __future__ import annotations

from vlib import fsops
from vlib.fsops import join, parent


class Facts:
    def __init__(self):
        self.names = {}  # path -> set of kinds that existed under that path at some moment of the window
        self.appeared = set()  # (path, kind)
        self.disappeared = set()  # (path, kind)
        self.moved = set()  # (old, new, kind, is_top)
        self.ftouch = {}  # file path -> set of {"modify","attrib","open","close_write","close_nowrite"}
        self.dtouch = {""}  # directories whose entries changed or that were chmod'ed (root: sentinel ops)
        self.arrived = set()  # directories that arrived by a move in this window (rename/replace/move_in destination)

    def note_names(self, m):
        for p, v in m.tree.items():
            self.names.setdefault(p, set()).add(v[0])

    def touch(self, p, *what):
        self.ftouch.setdefault(p, set()).update(what)


def window_facts(model, ops, facts=None):
    """model is advanced in place over ops; returns Facts."""
    f = facts or Facts()
    f.note_names(model)
    for op in ops:
        op = tuple(op)
        k = op[0]
        if k == "sleep":
            continue
        if k == "create":
            f.appeared.add((op[1], "f"))
            f.touch(op[1], "open", "close_write")
            f.dtouch.add(parent(op[1]))
        elif k == "mkdir":
            f.appeared.add((op[1], "d"))
            f.dtouch.add(parent(op[1]))
        elif k == "makedirs":
            f.appeared.add((op[1], "d"))
            f.dtouch.add(parent(op[1]))
            for rel, kind in op[2]:
                q = join(op[1], rel)
                f.appeared.add((q, kind))
                f.dtouch.add(parent(q))
                if kind == "f":
                    f.touch(q, "open", "close_write")
        elif k == "write":
            f.touch(op[1], "open", "modify", "close_write")
            f.dtouch.add(parent(op[1]))  # IN_CLOSE_WRITE is followed by a parent-modified event
        elif k == "read":
            f.touch(op[1], "open", "close_nowrite")
        elif k == "chmod":
            if model.kind(op[1]) == "f":
                f.touch(op[1], "attrib")
            else:
                f.dtouch.add(op[1])
        elif k in ("unlink", "rmdir", "rmtree"):
            for q, v in model.sub(op[1]).items():
                f.disappeared.add((q, v[0]))
                f.dtouch.add(parent(q))
                if v[0] == "d":
                    f.dtouch.add(q)
                else:
                    f.touch(q, "attrib")  # link count change is reported as IN_ATTRIB on the file
        elif k in ("rename", "replace"):
            s, d = op[1], op[2]
            if k == "replace":
                for q, v in model.sub(d).items():
                    f.disappeared.add((q, v[0]))
                    if v[0] == "f":
                        f.touch(q, "attrib")
            for q, v in model.sub(s).items():
                nq = d + q[len(s) :]
                f.moved.add((q, nq, v[0], q == s))
                f.disappeared.add((q, v[0]))
                f.appeared.add((nq, v[0]))
            f.dtouch.update((parent(s), parent(d)))
            if model.kind(s) == "d":
                f.arrived.add(d)
                # the directory that is itself source/destination of the op (a replaced empty directory reports
                # its own removal as a metadata change under the replaced name)
                f.dtouch.update((s, d))
        elif k == "move_out":
            for q, v in model.sub(op[1]).items():
                f.disappeared.add((q, v[0]))
            f.dtouch.add(parent(op[1]))
        elif k == "move_in":
            sub = model.out[op[1]]
            for rel, v in sub.items():
                f.appeared.add((join(op[2], rel) if rel else op[2], v[0]))
            f.dtouch.add(parent(op[2]))
            if sub[""][0] == "d":
                f.arrived.add(op[2])
        elif k == "rmroot":
            for q, v in model.tree.items():
                f.disappeared.add((q, v[0]))
                if v[0] == "d":
                    f.dtouch.add(q)
        fsops.apply_op(model, op)
        f.note_names(model)
    return f


def in_scope(rel, recursive):
    return rel is not None and (recursive or rel.count("/") == 0)


def unjustified(e, norm, facts, recursive, full):
    """None if event e is justified by the window's facts, else a reason string."""
    from watchdog import events as ev

    kind = "d" if e.is_directory else "f"
    s = norm(e.src_path) if e.src_path != "" and e.src_path != b"" else None
    d = norm(e.dest_path) if e.dest_path != "" and e.dest_path != b"" else None
    has_s = e.src_path not in ("", b"")
    has_d = e.dest_path not in ("", b"")
    if has_s and not in_scope(s, recursive):
        return f"source path {e.src_path!r} is outside the watched scope"
    if has_d and not in_scope(d, recursive):
        return f"destination path {e.dest_path!r} is outside the watched scope"
    if has_d and not isinstance(e, ev.FileSystemMovedEvent):
        return "non-move event with a destination path"

    def below_arrived(p):
        return any(p.startswith(a + "/") for a in facts.arrived)

    if isinstance(e, ev.FileSystemMovedEvent):
        if type(e) not in (ev.FileMovedEvent, ev.DirMovedEvent):
            return "moved event of a base class"
        if has_s and has_d:
            if e.is_synthetic:
                if (s, d, kind, False) not in facts.moved:
                    return "synthetic move whose paths are not the old and new name of one descendant of a moved directory"
                return None
            if (s, d, kind, True) not in facts.moved:
                return "move whose source and destination are not the old and new name of one and the same entry"
            return None
        if not full:
            return "half-move from a normal emitter"
        if e.is_synthetic:
            return "synthetic half-move"
        if has_d:
            return None if (d, kind) in facts.appeared else "half-move to a path at which no such entry appeared"
        if has_s:
            return None if (s, kind) in facts.disappeared else "half-move from a path at which no such entry disappeared"
        return "move without paths"
    if not has_s:
        return "event without a source path"
    if kind not in facts.names.get(s, ()) and not (s == "" and kind == "d"):
        return f"no {'directory' if kind == 'd' else 'file'} existed under this path in this window"
    if isinstance(e, (ev.FileCreatedEvent, ev.DirCreatedEvent)):
        if (s, kind) not in facts.appeared:
            return "nothing of that kind appeared under this path"
        if e.is_synthetic and not below_arrived(s):
            return "synthetic created event for a path that is not below a directory that arrived by a move"
        return None
    if e.is_synthetic:
        return "synthetic flag on an event that is neither created nor moved"
    if isinstance(e, (ev.FileDeletedEvent, ev.DirDeletedEvent)):
        return None if (s, kind) in facts.disappeared else "nothing of that kind disappeared from this path"
    if isinstance(e, ev.DirModifiedEvent):
        return None if s in facts.dtouch else "directory whose entries did not change and that was not modified itself"
    t = facts.ftouch.get(s, set())
    if isinstance(e, ev.FileModifiedEvent):
        return None if t & {"modify", "attrib"} else "file was not written or chmod'ed"
    if isinstance(e, ev.FileOpenedEvent):
        return None if "open" in t else "file was not opened"
    if isinstance(e, ev.FileClosedEvent):
        return None if "close_write" in t else "file was not closed after writing"
    if isinstance(e, ev.FileClosedNoWriteEvent):
        return None if "close_nowrite" in t else "file was not closed after reading"
    return f"unknown event class {type(e).__name__}"


# ----------------------------------------------------------------------------- per-operation contract

EMPTY = "<empty>"  # an absent path of a half-move ('' is the root's relative name)


def required_events(model, op, recursive, full, mk):
    """The statement's contract for ONE op applied in state `model` (not advanced).  mk(cls_name, rel_src, rel_dest=None,
    synthetic=False) builds the expected event.  Returns list of required events (multiset)."""
    op = tuple(op)
    k = op[0]
    req = []

    def sc(p):
        return in_scope(p, recursive)

    def parent_mod(p):
        if sc(parent(p)) :
            req.append(mk("DirModifiedEvent", parent(p)))

    K = lambda kind, what: ("Dir" if kind == "d" else "File") + what  # noqa: E731
    if k in ("create", "mkdir"):
        if sc(op[1]):
            req.append(mk(K("f" if k == "create" else "d", "CreatedEvent"), op[1]))
            parent_mod(op[1])
    elif k in ("unlink", "rmdir"):
        if sc(op[1]):
            req.append(mk(K(model.kind(op[1]), "DeletedEvent"), op[1]))
            parent_mod(op[1])
    elif k == "rmtree":
        for q, v in model.sub(op[1]).items():
            if sc(q):
                req.append(mk(K(v[0], "DeletedEvent"), q))
                parent_mod(q)
    elif k in ("write", "chmod"):
        if sc(op[1]):
            req.append(mk(K(model.kind(op[1]), "ModifiedEvent"), op[1]))
    elif k in ("rename", "replace"):
        s, d = op[1], op[2]
        kind = model.kind(s)
        if sc(s) and sc(d):
            req.append(mk(K(kind, "MovedEvent"), s, d))
            req.append(mk("DirModifiedEvent", parent(s)))
            if parent(d) != parent(s):  # identical adjacent events are coalesced by the event queue
                req.append(mk("DirModifiedEvent", parent(d)))
            if recursive:
                for q, v in model.sub(s).items():
                    if q != s:
                        req.append(mk(K(v[0], "MovedEvent"), q, d + q[len(s) :], True))
        elif sc(s):
            req.append(mk(K(kind, "MovedEvent"), s, EMPTY) if full else mk(K(kind, "DeletedEvent"), s))
            parent_mod(s)
        elif sc(d):
            req.append(mk(K(kind, "MovedEvent"), EMPTY, d) if full else mk(K(kind, "CreatedEvent"), d))
            parent_mod(d)
    elif k == "move_out":
        s = op[1]
        if sc(s):
            req.append(mk(K(model.kind(s), "MovedEvent"), s, EMPTY) if full else mk(K(model.kind(s), "DeletedEvent"), s))
            parent_mod(s)
    elif k == "move_in":
        d = op[2]
        sub = model.out[op[1]]
        if sc(d):
            req.append(mk(K(sub[""][0], "MovedEvent"), EMPTY, d) if full else mk(K(sub[""][0], "CreatedEvent"), d))
            parent_mod(d)
            if recursive:
                for rel, v in sub.items():
                    if rel:
                        req.append(mk(K(v[0], "CreatedEvent"), join(d, rel), None, True))
    return req
