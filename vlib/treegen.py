"""Hypothesis strategies for virtual trees (vlib.vfs format) and chains of tree states."""

from __future__ import annotations

from hypothesis import strategies as st

from vlib import vfs

two = st.integers(0, 1)
DEV = st.sampled_from([1, 1, 2])


@st.composite
def tree_shapes(draw, names=("a", "b", "c"), depth=3, budget=12):
    out = {}

    def fill(d, level):
        for n in names:
            if len(out) >= budget:
                return
            k = draw(st.sampled_from("--ffd" if level else "-fdd"))
            if k == "-":
                continue
            p = (d + "/" + n) if d else n
            out[p] = k
            if k == "d" and level + 1 < depth:
                fill(p, level + 1)

    fill("", 0)
    return out


def fresh_ident(draw, nxt, taken):
    """A new identity (ino, dev).  One in five re-uses the inode NUMBER of an identity already around (the root's, an
    ancestor's, an old entry's) on another device - a tree that spans mount points; (ino, dev) stays unique."""
    if taken and draw(st.integers(0, 4)) == 0:
        base = draw(st.sampled_from(sorted(taken)))
        devs = [d for d in (1, 2, 3) if (base[0], d) not in taken]
        if devs:
            return (base[0], draw(st.sampled_from(devs)))
    ident = (nxt[0], draw(DEV))
    nxt[0] += 1
    return ident


def first_tree(draw, **kw):
    sh1 = draw(tree_shapes(**kw))
    t1 = {"": ("d", 1000, 1, 0, 0)}
    taken = {(1000, 1)}
    nxt = [0]  # inode numbers start at 0 (falsy, and reported by some file systems)
    for p in sorted(sh1):
        ident = fresh_ident(draw, nxt, taken)
        taken.add(ident)
        t1[p] = (sh1[p], ident[0], ident[1], draw(two), draw(two))
    return t1


def next_tree(draw, t1, names=("a", "b", "c"), depth=3, **kw):
    """A successor state of t1: a new shape (independent, or t1's with subtrees dropped / moved) whose entries take
    their identity from t1 (same path, another path = move/swap/reuse) or are fresh; mtime/size mostly inherited."""
    sh1 = {p: v[0] for p, v in t1.items() if p != ""}
    sh2 = draw(st.one_of(tree_shapes(names=names, depth=depth, **kw), st.just(None)))
    if sh2 is None:
        sh2 = dict(sh1)
        for _ in range(draw(st.integers(0, 3))):
            if not sh2:
                break
            victim = draw(st.sampled_from(sorted(sh2)))
            sub = {p: k for p, k in sh2.items() if p == victim or p.startswith(victim + "/")}
            for p in sub:
                del sh2[p]
            if draw(st.booleans()):
                dirs = [""] + sorted(p for p, k in sh2.items() if k == "d" and p.count("/") < depth - 1)
                nd = draw(st.sampled_from(dirs))
                nn = draw(st.sampled_from(list(names)))
                tgt = (nd + "/" + nn) if nd else nn
                for p in [q for q in sh2 if q == tgt or q.startswith(tgt + "/")]:
                    del sh2[p]
                for p, k in sub.items():
                    q = tgt + p[len(victim) :]
                    if q.count("/") < depth:
                        sh2[q] = k
    old_ids = {p: (v[1], v[2]) for p, v in t1.items() if p != ""}
    nxt = [max([v[1] for p, v in t1.items() if p != ""] + [499]) + 1]
    rootv = t1[""]
    t2 = {"": ("d", rootv[1], rootv[2], draw(two), 0)}
    used = set()
    for p in sorted(sh2):
        mode = draw(st.sampled_from(["same", "same", "same", "other", "fresh"]))
        ident = None
        if mode == "same" and p in old_ids and old_ids[p] not in used:
            ident = old_ids[p]
        elif mode == "other":
            cands = sorted(i for i in set(old_ids.values()) if i not in used)
            if cands:
                ident = draw(st.sampled_from(cands))
        if ident is None:
            ident = fresh_ident(draw, nxt, used | set(old_ids.values()) | {(rootv[1], rootv[2])})
        used.add(ident)
        src = [q for q, i in old_ids.items() if i == ident]
        if draw(st.integers(0, 3)) == 0 or not src:
            m, s = draw(two), draw(two)
        else:
            m, s = t1[src[0]][3], t1[src[0]][4]
        t2[p] = (sh2[p], ident[0], ident[1], m, s)
    return vfs.normalize_tree([(p, *v) for p, v in t2.items()])


@st.composite
def pairs(draw):
    rec = draw(st.booleans())
    t1 = first_tree(draw)
    t2 = next_tree(draw, t1)
    return t1, t2, rec


@st.composite
def chains(draw, min_len=2, max_len=6, **kw):
    t = first_tree(draw, **kw)
    out = [t]
    for _ in range(draw(st.integers(min_len - 1, max_len - 1))):
        t = next_tree(draw, t, **kw)
        out.append(t)
    return out
