"""Loads a second, controlled copy of the watchdog package whose modules bind the dsched substitutes for
`threading`, `time` and `queue`, and manages line-level scheduling points (sys.monitoring LINE events)."""

from __future__ import annotations

import _thread
import importlib
import sys
import types

from vlib.dsched import core

MODULES = [
    "watchdog", "watchdog.utils", "watchdog.utils.bricks", "watchdog.utils.delayed_queue", "watchdog.utils.patterns",
    "watchdog.utils.dirsnapshot", "watchdog.utils.event_debouncer", "watchdog.utils.process_watcher", "watchdog.utils.platform",
    "watchdog.utils.echo", "watchdog.events", "watchdog.observers.api", "watchdog.observers.inotify_c",
    "watchdog.observers.inotify_buffer", "watchdog.observers.inotify", "watchdog.observers.polling", "watchdog.tricks",
]  # fmt: skip

_loaded = {}
TOOL = 3
_tool_ready = [False]
_enabled_codes = set()


class Controlled:
    def __init__(self, mods):
        self.mods = mods
        self.utils = mods["watchdog.utils"]
        self.bricks = mods["watchdog.utils.bricks"]
        self.delayed_queue = mods["watchdog.utils.delayed_queue"]
        self.dirsnapshot = mods["watchdog.utils.dirsnapshot"]
        self.event_debouncer = mods["watchdog.utils.event_debouncer"]
        self.process_watcher = mods["watchdog.utils.process_watcher"]
        self.events = mods["watchdog.events"]
        self.api = mods["watchdog.observers.api"]
        self.inotify_c = mods["watchdog.observers.inotify_c"]
        self.inotify_buffer = mods["watchdog.observers.inotify_buffer"]
        self.inotify = mods["watchdog.observers.inotify"]
        self.polling = mods["watchdog.observers.polling"]
        self.tricks = mods["watchdog.tricks"]
        self.queue = core.fake_queue


def load():
    """Returns the Controlled namespace (loaded once per process)."""
    if "c" in _loaded:
        return _loaded["c"]
    # 1. import everything normally so that only watchdog's own imports bind the substitutes
    for name in MODULES:
        importlib.import_module(name)
    import logging, subprocess, signal, string, functools, contextlib, dataclasses, pathlib, ctypes, select, struct  # noqa: F401, E401

    saved = {k: sys.modules.pop(k) for k in list(sys.modules) if k == "watchdog" or k.startswith("watchdog.")}
    real = {k: sys.modules[k] for k in ("threading", "time", "queue")}
    sys.modules["threading"] = core.fake_threading
    sys.modules["time"] = core.fake_time
    sys.modules["queue"] = core.fake_queue
    try:
        mods = {name: importlib.import_module(name) for name in MODULES}
    finally:
        for k in [k for k in sys.modules if k == "watchdog" or k.startswith("watchdog.")]:
            del sys.modules[k]
        sys.modules.update(real)
        sys.modules.update(saved)
    # sanity: the controlled copy must be bound to the substitutes
    assert mods["watchdog.utils"].threading is core.fake_threading
    assert mods["watchdog.utils.delayed_queue"].time is core.fake_time
    assert mods["watchdog.utils.bricks"].queue is core.fake_queue
    assert issubclass(mods["watchdog.utils"].BaseThread, core.Thread)
    c = Controlled(mods)
    _loaded["c"] = c
    return c


# ----------------------------------------------------------------------------- line-level scheduling points


def _codes_of(obj, seen):
    """All code objects reachable from a module / class / function."""
    out = []

    def from_code(co):
        if co in seen:
            return
        seen.add(co)
        out.append(co)
        for k in co.co_consts:
            if isinstance(k, types.CodeType):
                from_code(k)

    def visit(o, depth=0):
        if isinstance(o, types.FunctionType):
            from_code(o.__code__)
        elif isinstance(o, (staticmethod, classmethod)):
            visit(o.__func__)
        elif isinstance(o, property):
            for f in (o.fget, o.fset, o.fdel):
                if f is not None:
                    visit(f)
        elif isinstance(o, type) and depth < 3:
            for v in vars(o).values():
                visit(v, depth + 1)

    if isinstance(obj, types.ModuleType):
        for v in vars(obj).values():
            if getattr(v, "__module__", None) == obj.__name__ or isinstance(v, types.FunctionType) and v.__code__.co_filename == getattr(obj, "__file__", None):
                visit(v)
    else:
        visit(obj)
    return out


def _on_line(code, lineno):
    s = core._active[0]
    if s is None or s.aborting or s.in_sched or not s.line_hook_enabled:
        return None
    cur = s.current
    if cur is None or cur.os_ident != _thread.get_ident():
        return None
    s.yield_point(("line", code.co_filename.rsplit("/", 1)[-1], lineno))
    return None


def set_line_points(modules):
    """Enable line-level scheduling points for exactly the given modules (module objects; pass [] to disable)."""
    mon = sys.monitoring
    if not _tool_ready[0]:
        try:
            mon.use_tool_id(TOOL, "dsched")
        except ValueError:
            pass
        mon.register_callback(TOOL, mon.events.LINE, _on_line)
        _tool_ready[0] = True
    seen = set()
    want = []
    for m in modules:
        want += _codes_of(m, seen)
    want = set(want)
    for co in _enabled_codes - want:
        mon.set_local_events(TOOL, co, 0)
    for co in want - _enabled_codes:
        mon.set_local_events(TOOL, co, mon.events.LINE)
    _enabled_codes.clear()
    _enabled_codes.update(want)
    return len(want)
