"""E2 `dsched`: a deterministic scheduler.  The code under test runs on real OS threads of which exactly one
runs at a time (baton passing); every context switch is a decision taken from a chooser, i.e. the schedule is
a plain value.  Substitutes for `threading`, `time` and `queue` are model objects manipulated only by the
running thread; a virtual clock advances only when nothing is runnable (strict mode).

Public surface:
    Scheduler(chooser, max_steps=..., loose_clock=False).run(main_fn) -> Result
    fake_threading, fake_time, fake_queue            module objects to install in sys.modules while importing
    ACTIVE()                                         the scheduler of the current run (or None)
"""

from __future__ import annotations

import _thread
import itertools
import sys
import threading as _real_threading
import time as _real_time
import types

BASE_TIME = 1_700_000_000.0


class Abort(BaseException):
    """Raised inside managed threads to unwind them when a run is aborted."""


class RunAborted(Exception):
    pass


_active = [None]


def ACTIVE():
    return _active[0]


# =============================================================================== scheduler


class MThread:
    __slots__ = ("idx", "name", "gate", "state", "deadline", "timed_out", "obj", "exc", "os_ident", "wait_desc", "daemon", "is_main")

    def __init__(self, idx, name, obj=None):
        self.idx = idx
        self.name = name
        self.gate = _thread.allocate_lock()
        self.gate.acquire()
        self.state = "runnable"  # runnable | blocked | finished
        self.deadline = None
        self.timed_out = False
        self.obj = obj
        self.exc = None
        self.os_ident = None
        self.wait_desc = None
        self.daemon = True
        self.is_main = False

    def __repr__(self):
        return f"<T{self.idx} {self.name} {self.state}{' on ' + str(self.wait_desc) if self.state == 'blocked' else ''}>"


class Result:
    def __init__(self):
        self.deadlock = None  # description or None
        self.budget_exceeded = False
        self.uncaught = []  # (thread name, exception repr, traceback text)
        self.alive_at_end = []  # names of threads not finished when main finished and the system was quiescent
        self.steps = 0
        self.decisions = []  # (n_candidates, current_runnable, chosen_index)
        self.preemptions = 0
        self.main_exc = None
        self.value = None
        self.now = 0.0
        self.trace = []


class Scheduler:
    def __init__(self, chooser, *, max_steps=200_000, loose_clock=False, trace=False, real_timeout=60.0):
        self.chooser = chooser
        self.max_steps = max_steps
        self.loose = loose_clock
        self.threads = []
        self.current = None
        self.now = 0.0
        self.steps = 0
        self.aborting = False
        self.in_sched = False
        self.result = Result()
        self.tracing = trace
        self.real_timeout = real_timeout
        self.line_hook_enabled = True
        self.seq = itertools.count(1)  # logical time for harness logs
        self.log = []  # harness event log: (seq, thread idx, tag, payload)

    # ------------------------------------------------------------------ harness log
    def record(self, tag, payload=None):
        if self.aborting:
            return None
        n = next(self.seq)
        self.log.append((n, self.current.idx if self.current else -1, tag, payload))
        return n

    # ------------------------------------------------------------------ running
    def run(self, main_fn):
        assert _active[0] is None, "nested scheduler runs are not supported"
        _active[0] = self
        Thread._counter = itertools.count(1)  # deterministic thread hashes / names per run
        main = MThread(0, "main")
        main.is_main = True
        main.daemon = False
        main.os_ident = _thread.get_ident()
        self.threads.append(main)
        self.current = main
        res = self.result
        try:
            try:
                res.value = main_fn()
            except Abort:
                pass
            except RunAborted:
                pass
            except BaseException as e:  # noqa: BLE001
                if not self.aborting:
                    res.main_exc = e
            if not self.aborting:
                try:
                    self._quiesce()
                except Abort:
                    pass
        finally:
            main.state = "finished"
            self._abort_all()
            res.steps = self.steps
            res.now = self.now
            _active[0] = None
        return res

    def _quiesce(self, horizon=50.0):
        """Main is done: let the others run until nothing is runnable without advancing the clock more than
        `horizon` virtual seconds; whoever is then unfinished is reported as alive."""
        limit = self.now + horizon
        main = self.threads[0]
        while True:
            others = [t for t in self.threads[1:] if t.state != "finished"]
            if not others:
                break
            runnable = [t for t in others if t.state == "runnable"]
            if not runnable:
                timed = [t for t in others if t.state == "blocked" and t.deadline is not None and t.deadline <= limit]
                if not timed:
                    break
            # block main as a waiter with a deadline at the horizon: it is woken when the clock reaches it
            main.state = "blocked"
            main.deadline = limit
            main.wait_desc = "quiesce"
            main.timed_out = False
            self.in_sched = True
            try:
                self._schedule_away()
            finally:
                self.in_sched = False
            if self.aborting:
                raise Abort
            if self.now >= limit:
                break
        self.result.alive_at_end = [t.name for t in self.threads[1:] if t.state != "finished"]

    def _abort_all(self):
        self.aborting = True
        me = _thread.get_ident()
        for t in self.threads:
            if t.state != "finished" and t.os_ident != me:
                try:
                    t.gate.release()
                except RuntimeError:
                    pass
        # wait (real time) for the OS threads to unwind
        end = _real_time.monotonic() + 5.0
        for t in self.threads:
            while t.state != "finished" and t.os_ident not in (None, me) and _real_time.monotonic() < end:
                _real_time.sleep(0.0005)

    # ------------------------------------------------------------------ decisions
    def _candidates(self):
        return [t for t in self.threads if t.state == "runnable"]

    def _pick(self, cands, current_runnable):
        """cands[0] is the current thread when it is runnable."""
        if len(cands) == 1:
            return cands[0]
        i = self.chooser.choose(len(cands), current_runnable, self)
        if not (0 <= i < len(cands)):
            i = 0
        self.result.decisions.append((len(cands), current_runnable, i))
        if current_runnable and i != 0:
            self.result.preemptions += 1
        return cands[i]

    def yield_point(self, why=None):
        """Called by the running thread at a scheduling point at which it stays runnable."""
        if self.aborting:
            raise Abort
        if self.in_sched:
            return
        self.in_sched = True
        try:
            self.steps += 1
            if self.steps > self.max_steps:
                self.result.budget_exceeded = True
                self._start_abort()
            cur = self.current
            others = [t for t in self.threads if t.state == "runnable" and t is not cur]
            if self.loose:
                others += [t for t in self.threads if t.state == "blocked" and t.deadline is not None and t is not cur]
            if not others:
                return
            others.sort(key=lambda t: t.idx)
            chosen = self._pick([cur] + others, True)
            if chosen is cur:
                return
            if self.tracing:
                self.result.trace.append(("preempt", cur.idx, chosen.idx, why))
            self._fire_if_timed(chosen)
            self._switch_to(chosen)
        finally:
            self.in_sched = False
        if self.aborting:
            raise Abort

    def _fire_if_timed(self, t):
        if t.state == "blocked":
            self.now = max(self.now, t.deadline)
            t.timed_out = True
            t.state = "runnable"
            t.deadline = None
            # every other waiter whose time has come as well becomes runnable at the same instant, so that threads
            # with equal deadlines can interleave
            for o in self.threads:
                if o.state == "blocked" and o.deadline is not None and o.deadline <= self.now:
                    o.timed_out = True
                    o.state = "runnable"
                    o.deadline = None

    def block(self, desc, deadline=None):
        """The running thread blocks.  Returns True if woken by wake(), False on timeout."""
        if self.aborting:
            raise Abort
        if deadline is not None and deadline <= self.now:
            # a wait whose time is already up: it times out at once, but others may run first
            self.yield_point(("expired-wait", desc if isinstance(desc, str) else desc[0]))
            return False
        cur = self.current
        cur.state = "blocked"
        cur.deadline = deadline
        cur.timed_out = False
        cur.wait_desc = desc
        self.in_sched = True
        try:
            self.steps += 1
            if self.steps > self.max_steps:
                self.result.budget_exceeded = True
                self._start_abort()
            self._schedule_away()
        finally:
            self.in_sched = False
        if self.aborting:
            raise Abort
        return not cur.timed_out

    def wake(self, t):
        if t.state == "blocked":
            t.state = "runnable"
            t.deadline = None
            t.timed_out = False

    def _schedule_away(self):
        """Current thread cannot continue (blocked or finished): pick someone else."""
        cur = self.current
        cands = sorted((t for t in self.threads if t.state == "runnable"), key=lambda t: t.idx)
        if self.loose:
            cands += sorted((t for t in self.threads if t.state == "blocked" and t.deadline is not None and t is not cur), key=lambda t: t.idx)
        if not cands:
            timed = [t for t in self.threads if t.state == "blocked" and t.deadline is not None]
            if timed:
                t = min(timed, key=lambda t: (t.deadline, t.idx))
                self._fire_if_timed(t)
                # every waiter whose time has come is runnable now: who goes first is a free choice (default: lowest index)
                cands = sorted((x for x in self.threads if x.state == "runnable"), key=lambda x: x.idx)
            else:
                unfinished = [t for t in self.threads if t.state != "finished"]
                if unfinished:
                    self.result.deadlock = "; ".join(repr(t) for t in unfinished)
                self._start_abort()
                return
        chosen = self._pick(cands, False)
        self._fire_if_timed(chosen)
        if chosen is cur:
            return
        if self.tracing:
            self.result.trace.append(("switch", cur.idx, chosen.idx, cur.wait_desc))
        self._switch_to(chosen)

    def _start_abort(self):
        self.aborting = True
        main = self.threads[0]
        if self.current is not main and main.state != "finished":
            try:
                main.gate.release()  # main unwinds to run(), which releases everybody else
            except RuntimeError:
                pass
        raise Abort

    def _switch_to(self, nxt):
        prev = self.current
        self.current = nxt
        nxt.gate.release()
        if prev.state != "finished":
            prev.gate.acquire()
        # resumed (or aborted)

    # ------------------------------------------------------------------ threads
    MAX_THREADS = 200

    def spawn(self, obj, name, target):
        if len(self.threads) >= self.MAX_THREADS:
            # unbounded thread creation inside one bounded program: report it like an exhausted step budget
            self.result.budget_exceeded = True
            self._start_abort()
        t = MThread(len(self.threads), name, obj)
        self.threads.append(t)

        def bootstrap():
            t.os_ident = _thread.get_ident()
            t.gate.acquire()
            try:
                if self.aborting:
                    return
                self.in_sched = False  # we were switched to from inside somebody's scheduling call
                try:
                    target()
                except Abort:
                    pass
                except BaseException as e:  # noqa: BLE001
                    if not self.aborting:
                        import traceback

                        t.exc = e
                        self.result.uncaught.append((t.name, repr(e), traceback.format_exc()[-2500:]))
            finally:
                t.state = "finished"
                if not self.aborting:
                    # wake joiners, then hand the baton on
                    for w in self.threads:
                        if w.state == "blocked" and isinstance(w.wait_desc, tuple) and w.wait_desc[0] == "join" and w.wait_desc[1] is t:
                            self.wake(w)
                    try:
                        self.in_sched = True
                        self._schedule_away()
                    except Abort:
                        pass
                    finally:
                        self.in_sched = False

        _thread.start_new_thread(bootstrap, ())
        return t

    def current_is_me(self):
        cur = self.current
        return cur is not None and cur.os_ident == _thread.get_ident()


# =============================================================================== substitutes: threading


def _sched():
    s = _active[0]
    if s is None:
        raise RuntimeError("dsched substitute used outside a scheduler run")
    return s


class Lock:
    def __init__(self):
        self._owner = None
        self._waiters = []

    def acquire(self, blocking=True, timeout=-1):
        s = _sched()
        if s.aborting:
            return True
        s.yield_point(("lock.acquire", id(self)))
        me = s.current
        deadline = None if timeout is None or timeout < 0 else s.now + timeout
        while self._owner is not None:
            if not blocking:
                return False
            self._waiters.append(me)
            ok = s.block(("lock", self), deadline)
            if me in self._waiters:
                self._waiters.remove(me)
            if not ok:
                return False
        self._owner = me
        return True

    def release(self):
        s = _sched()
        if s.aborting:
            return
        if self._owner is None:
            raise RuntimeError("release unlocked lock")
        self._owner = None
        for w in self._waiters:
            s.wake(w)
        s.yield_point(("lock.release", id(self)))

    def locked(self):
        return self._owner is not None

    __enter__ = acquire

    def __exit__(self, *a):
        self.release()

    def _is_owned(self):
        return self._owner is _sched().current


class RLock:
    def __init__(self):
        self._owner = None
        self._count = 0
        self._waiters = []

    def acquire(self, blocking=True, timeout=-1):
        s = _sched()
        if s.aborting:
            return True
        me = s.current
        if self._owner is me:
            self._count += 1
            return True
        s.yield_point(("rlock.acquire", id(self)))
        deadline = None if timeout is None or timeout < 0 else s.now + timeout
        while self._owner is not None:
            if not blocking:
                return False
            self._waiters.append(me)
            ok = s.block(("rlock", self), deadline)
            if me in self._waiters:
                self._waiters.remove(me)
            if not ok:
                return False
        self._owner = me
        self._count = 1
        return True

    def release(self):
        s = _sched()
        if s.aborting:
            return
        if self._owner is not s.current:
            raise RuntimeError("cannot release un-acquired lock")
        self._count -= 1
        if self._count == 0:
            self._owner = None
            for w in self._waiters:
                s.wake(w)
            s.yield_point(("rlock.release", id(self)))

    __enter__ = acquire

    def __exit__(self, *a):
        self.release()

    def _is_owned(self):
        return self._owner is _sched().current

    def _release_save(self):
        s = _sched()
        st = (self._owner, self._count)
        self._owner = None
        self._count = 0
        for w in self._waiters:
            s.wake(w)
        return st

    def _acquire_restore(self, st):
        s = _sched()
        me = s.current
        while self._owner is not None:
            self._waiters.append(me)
            s.block(("rlock", self), None)
            if me in self._waiters:
                self._waiters.remove(me)
        self._owner, self._count = st


class Condition:
    def __init__(self, lock=None):
        self._lock = lock if lock is not None else RLock()
        self.acquire = self._lock.acquire
        self.release = self._lock.release
        self._waiters = []  # [thread, notified]

    def __enter__(self):
        return self._lock.__enter__()

    def __exit__(self, *a):
        return self._lock.__exit__(*a)

    def _is_owned(self):
        return self._lock._is_owned()

    def wait(self, timeout=None):
        s = _sched()
        if s.aborting:
            raise Abort
        if not self._is_owned():
            raise RuntimeError("cannot wait on un-acquired lock")
        me = s.current
        entry = [me, False]
        self._waiters.append(entry)
        # release the lock completely
        if isinstance(self._lock, RLock):
            saved = self._lock._release_save()
        else:
            saved = None
            self._lock._owner = None
            for w in self._lock._waiters:
                s.wake(w)
        deadline = None if timeout is None else s.now + max(0.0, timeout)
        try:
            while not entry[1]:
                ok = s.block(("cond", self), deadline)
                if not ok:
                    break
        finally:
            if entry in self._waiters:
                self._waiters.remove(entry)
            if not s.aborting:
                if saved is not None:
                    self._lock._acquire_restore(saved)
                else:
                    while self._lock._owner is not None:
                        self._lock._waiters.append(me)
                        s.block(("lock", self._lock), None)
                        if me in self._lock._waiters:
                            self._lock._waiters.remove(me)
                    self._lock._owner = me
        return entry[1]

    def wait_for(self, predicate, timeout=None):
        s = _sched()
        end = None if timeout is None else s.now + timeout
        result = predicate()
        while not result:
            left = None if end is None else end - s.now
            if left is not None and left <= 0:
                break
            self.wait(left)
            result = predicate()
        return result

    def notify(self, n=1):
        s = _sched()
        if s.aborting:
            return
        if not self._is_owned():
            raise RuntimeError("cannot notify on un-acquired lock")
        for entry in self._waiters:
            if n <= 0:
                break
            if not entry[1]:
                entry[1] = True
                s.wake(entry[0])
                n -= 1
        s.yield_point(("cond.notify", id(self)))

    def notify_all(self):
        self.notify(len(self._waiters) + 1)

    notifyAll = notify_all


class Event:
    def __init__(self):
        self._flag = False
        self._waiters = []

    def is_set(self):
        s = _active[0]
        if s is not None and not s.aborting and s.current_is_me():
            s.yield_point(("event.is_set", id(self)))
        return self._flag

    isSet = is_set

    def set(self):
        s = _sched()
        if s.aborting:
            self._flag = True
            return
        self._flag = True
        for w in self._waiters:
            s.wake(w)
        s.yield_point(("event.set", id(self)))

    def clear(self):
        self._flag = False

    def wait(self, timeout=None):
        s = _sched()
        if s.aborting:
            raise Abort
        s.yield_point(("event.wait", id(self)))
        if self._flag:
            return True
        me = s.current
        deadline = None if timeout is None else s.now + max(0.0, timeout)
        self._waiters.append(me)
        try:
            while not self._flag:
                if not s.block(("event", self), deadline):
                    break
        finally:
            if me in self._waiters:
                self._waiters.remove(me)
        return self._flag


class Semaphore:
    def __init__(self, value=1):
        self._value = value
        self._cond = Condition(Lock())

    def acquire(self, blocking=True, timeout=None):
        with self._cond:
            while self._value == 0:
                if not blocking:
                    return False
                if not self._cond.wait(timeout):
                    return False
            self._value -= 1
            return True

    def release(self, n=1):
        with self._cond:
            self._value += n
            self._cond.notify(n)

    __enter__ = acquire

    def __exit__(self, *a):
        self.release()


class Thread:
    _counter = itertools.count(1)

    def __init__(self, group=None, target=None, name=None, args=(), kwargs=None, *, daemon=None):
        self._target = target
        self._args = args
        self._kwargs = kwargs or {}
        self._index = next(Thread._counter)
        self._name = name or f"Thread-{self._index}"
        self._daemonic = bool(daemon) if daemon is not None else False
        self._m = None
        self._started = False

    def __hash__(self):
        return self._index

    def __eq__(self, other):
        return self is other

    @property
    def name(self):
        return self._name

    @name.setter
    def name(self, v):
        self._name = v

    def getName(self):
        return self._name

    def setName(self, v):
        self._name = v

    @property
    def daemon(self):
        return self._daemonic

    @daemon.setter
    def daemon(self, v):
        self._daemonic = bool(v)

    def setDaemon(self, v):
        self._daemonic = bool(v)

    def isDaemon(self):
        return self._daemonic

    @property
    def ident(self):
        return self._m.idx if self._m else None

    native_id = ident

    def start(self):
        s = _sched()
        if s.aborting:
            raise Abort
        if self._started:
            raise RuntimeError("threads can only be started once")
        self._started = True
        cls = type(self).__name__
        self._m = s.spawn(self, f"{cls}:{self._name}", self._bootstrap)
        self._m.daemon = self._daemonic
        s.yield_point(("thread.start", self._m.idx))

    def _bootstrap(self):
        self.run()

    def run(self):
        if self._target is not None:
            self._target(*self._args, **self._kwargs)

    def is_alive(self):
        s = _active[0]
        if s is not None and not s.aborting and s.current_is_me():
            s.yield_point(("thread.is_alive", self._index))
        return self._started and self._m is not None and self._m.state != "finished"

    isAlive = is_alive

    def join(self, timeout=None):
        s = _sched()
        if s.aborting:
            raise Abort
        if not self._started:
            raise RuntimeError("cannot join thread before it is started")
        if self._m is s.current:
            raise RuntimeError("cannot join current thread")
        s.yield_point(("thread.join", self._m.idx))
        deadline = None if timeout is None else s.now + max(0.0, timeout)
        while self._m.state != "finished":
            if not s.block(("join", self._m), deadline):
                break


class _MainThreadObj(Thread):
    def __init__(self):
        super().__init__(name="MainThread")
        self._started = True


def current_thread():
    s = _sched()
    cur = s.current
    if cur.obj is None:
        cur.obj = _MainThreadObj()
        cur.obj._m = cur
    return cur.obj


def _make_threading():
    m = types.ModuleType("threading")
    m.__dict__.update(
        Thread=Thread, Lock=Lock, RLock=RLock, Condition=Condition, Event=Event, Semaphore=Semaphore,
        BoundedSemaphore=Semaphore, current_thread=current_thread, currentThread=current_thread,
        main_thread=lambda: _sched().threads[0].obj or current_thread(),
        get_ident=lambda: _sched().current.idx,
        get_native_id=lambda: _sched().current.idx,
        enumerate=lambda: [t.obj for t in _sched().threads if t.state != "finished" and t.obj is not None],
        active_count=lambda: sum(1 for t in _sched().threads if t.state != "finished"),
        TIMEOUT_MAX=_real_threading.TIMEOUT_MAX,
        ThreadError=RuntimeError,
        excepthook=_real_threading.excepthook,
        local=_real_threading.local,
        _dsched=True,
    )  # fmt: skip
    return m


fake_threading = _make_threading()

# =============================================================================== substitutes: time


def _time():
    s = _active[0]
    return BASE_TIME + (s.now if s is not None else 0.0)


def _sleep(d):
    s = _sched()
    if s.aborting:
        raise Abort
    if d < 0:
        raise ValueError("sleep length must be non-negative")  # as time.sleep does
    if d == 0:
        s.yield_point(("sleep0",))
        return
    s.block(("sleep", d), s.now + d)


def _make_time():
    m = types.ModuleType("time")
    for k in dir(_real_time):
        if not k.startswith("__"):
            setattr(m, k, getattr(_real_time, k))
    m.time = _time
    m.monotonic = lambda: (ACTIVE().now if ACTIVE() is not None else 0.0) + 1000.0
    m.perf_counter = m.monotonic
    m.sleep = _sleep
    m.time_ns = lambda: int(_time() * 1e9)
    m.monotonic_ns = lambda: int(m.monotonic() * 1e9)
    m._dsched = True
    return m


fake_time = _make_time()

# =============================================================================== substitutes: queue (stdlib source over the fakes)


def _make_queue():
    import queue as _real_queue

    path = _real_queue.__file__
    with open(path) as f:
        src = f.read()
    m = types.ModuleType("queue")
    m.__file__ = path
    saved = {k: sys.modules.get(k) for k in ("threading", "time")}
    sys.modules["threading"] = fake_threading
    sys.modules["time"] = fake_time
    try:
        exec(compile(src, path, "exec"), m.__dict__)
    finally:
        for k, v in saved.items():
            if v is not None:
                sys.modules[k] = v
    m._dsched = True
    return m


fake_queue = _make_queue()
