"""Helpers shared by the E2 property modules: execute a program under a schedule, schedule strategies,
DFS driver with sharding."""

from __future__ import annotations

from hypothesis import strategies as st

from vlib.dsched import core, explore, loader

_current_lines = [None]


def ensure_lines(mod_names):
    """mod_names: tuple of attribute names of loader.Controlled ('api', 'bricks', 'queue', ...)."""
    key = tuple(mod_names)
    if _current_lines[0] == key:
        return
    W = loader.load()
    loader.set_line_points([getattr(W, n) for n in mod_names])
    _current_lines[0] = key


def execute(main_fn, *, prefix=None, preempt=None, free=(), loose=False, max_steps=100_000, trace=False):
    """Runs main_fn(sched) under the given schedule.  Returns (result, sched)."""
    if prefix is not None:
        ch = explore.PrefixChooser(prefix)
    else:
        ch = explore.RandomChooser(preempt, free)
    s = core.Scheduler(ch, max_steps=max_steps, loose_clock=loose, trace=trace)
    r = s.run(lambda: main_fn(s))
    return r, s


def execute_random(main_fn, sched_spec, **kw):
    """sched_spec = (list of (fraction, choice), list of free choices): two passes - a default run measures the number
    of decisions, the fractions are then mapped to decision numbers."""
    fracs, free = sched_spec
    if not fracs:
        return execute(main_fn, preempt={}, free=free, **kw)
    r0, _ = execute(main_fn, preempt={}, free=free, **kw)
    L = max(1, len(r0.decisions))
    preempt = {}
    for f, c in fracs:
        preempt[min(L - 1, int(f * L))] = c
    return execute(main_fn, preempt=preempt, free=free, **kw)


SCHEDULES = st.tuples(
    st.lists(st.tuples(st.floats(0, 1, exclude_max=True, allow_nan=False, width=32), st.integers(0, 3)), max_size=3),
    st.lists(st.integers(0, 3), max_size=10),
)


def basic_verdict(r, *, allow_alive=()):
    """Common E2 oracle parts: returns (signature, message) or None."""
    if r.budget_exceeded:
        return ("livelock", f"step budget exhausted after {r.steps} steps")
    if r.deadlock:
        return ("deadlock", f"deadlock: {r.deadlock}")
    if r.uncaught:
        t = r.uncaught[0]
        return ("thread-died:" + t[1].split("(")[0], f"uncaught exception in {t[0]}: {t[1]}\n{t[2][-800:]}")
    if r.main_exc is not None:
        import traceback

        return ("main-exception:" + type(r.main_exc).__name__, "".join(traceback.format_exception(r.main_exc))[-1500:])
    alive = [a for a in r.alive_at_end if not any(a.startswith(p) for p in allow_alive)]
    if alive:
        return ("thread-leak", f"threads still alive after the program ended: {alive}")
    return None
