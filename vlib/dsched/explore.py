"""Choosers: replay / default / random-with-preemption-points, and a stateless DFS with a preemption bound."""

from __future__ import annotations


class PrefixChooser:
    """Follows `prefix` (list of candidate indices), afterwards the default policy: keep running the current
    thread if it is runnable (index 0), else take the first candidate."""

    def __init__(self, prefix=()):
        self.prefix = list(prefix)
        self.k = 0

    def choose(self, n, current_runnable, sched):
        i = self.prefix[self.k] if self.k < len(self.prefix) else 0
        self.k += 1
        return i if i < n else 0


class RandomChooser:
    """Preempts at the decision numbers in `preempt` (dict decision_no -> choice) and resolves free switches
    (current thread not runnable) from the `free` sequence."""

    def __init__(self, preempt=None, free=(), free_default=0):
        self.preempt = dict(preempt or {})
        self.free = list(free)
        self.fi = 0
        self.k = 0
        self.free_default = free_default

    def choose(self, n, current_runnable, sched):
        k = self.k
        self.k += 1
        if current_runnable:
            c = self.preempt.get(k)
            if c is None:
                return 0
            return 1 + (c % (n - 1))
        if self.fi < len(self.free):
            c = self.free[self.fi]
            self.fi += 1
            return c % n
        return self.free_default % n


def dfs(run_with_prefix, bound, *, max_runs=None, shard=None):
    """Stateless depth-first enumeration of all schedules with at most `bound` preemptions.
    run_with_prefix(prefix) -> list of (n, current_runnable, chosen) decisions of that execution (the callback
    does the checking itself).  shard=(i, n): only schedules whose FIRST preemption happens at a decision number
    congruent to i modulo n are explored (shard 0 also owns the preemption-free schedules).
    Returns (executions, completed)."""
    runs = 0
    prefix = []
    while True:
        decisions = run_with_prefix(prefix)
        runs += 1
        if max_runs is not None and runs >= max_runs:
            return runs, False
        chosen = [d[2] for d in decisions]

        def cost(d, c):
            return 1 if (d[1] and c != 0) else 0

        used = [0]
        first_pre = None
        for i, (d, c) in enumerate(zip(decisions, chosen)):
            if first_pre is None and cost(d, c):
                first_pre = i
            used.append(used[-1] + cost(d, c))
        nxt = None
        for i in range(len(decisions) - 1, -1, -1):
            n, cur_run, c = decisions[i]
            for c2 in range(c + 1, n):
                if used[i] + cost(decisions[i], c2) > bound:
                    continue
                if shard is not None:
                    # position of the first preemption in the candidate prefix
                    fp = first_pre if (first_pre is not None and first_pre < i) else (i if cost(decisions[i], c2) else None)
                    if fp is None:
                        if shard[0] != 0:
                            continue
                    elif fp % shard[1] != shard[0]:
                        continue
                nxt = chosen[:i] + [c2]
                break
            if nxt is not None:
                break
        if nxt is None:
            return runs, True
        prefix = nxt
