"""Simulated process table for the dsched engine (C18): replaces subprocess.Popen and kill_process in the
controlled copy of watchdog.tricks.  A child needs no thread: its exit is a virtual point in time."""

from __future__ import annotations

import types

from vlib.dsched import core

_table = [None]


def T():
    return _table[0]


class FakeProc:
    def __init__(self, table, pid, behaviour):
        self.table = table
        self.pid = pid
        self.beh = behaviour  # dict(exit_after=None|float, on_sigint=("exit", delay)|"ignore")
        self.spawned = table.now()
        self.exit_time = None if behaviour.get("exit_after") is None else self.spawned + behaviour["exit_after"]
        self.returncode = None
        self.signalled = False

    def _update(self):
        if self.returncode is None and self.exit_time is not None and self.table.now() >= self.exit_time:
            self.returncode = -2 if self.signalled else 0
            self.table.log.append((self.exit_time, "exit", self.pid))

    def poll(self):
        s = core.ACTIVE()
        if s is not None and not s.aborting and s.current_is_me():
            s.yield_point(("proc.poll", self.pid))
        self._update()
        return self.returncode

    def wait(self, timeout=None):
        tm = core.fake_time
        end = None if timeout is None else self.table.now() + timeout
        while self.poll() is None:
            if end is not None and self.table.now() >= end:
                raise TimeoutError
            nxt = self.exit_time if self.exit_time is not None else self.table.now() + 1.0
            tm.sleep(max(nxt - self.table.now(), 0.01))
        return self.returncode

    def alive_at(self, t):
        return self.spawned <= t and (self.exit_time is None or t < self.exit_time)


class ProcTable:
    def __init__(self, behaviours):
        self.behaviours = list(behaviours)
        self.procs = []
        self.log = []  # (time, what, pid[, sig])
        self.next_pid = 1000

    def now(self):
        s = core.ACTIVE()
        return s.now if s else 0.0

    def Popen(self, cmd, *a, **kw):
        s = core.ACTIVE()
        if s is not None and not s.aborting:
            s.yield_point(("proc.spawn",))
        i = len(self.procs)
        beh = self.behaviours[min(i, len(self.behaviours) - 1)] if self.behaviours else {}  # the last behaviour repeats
        p = FakeProc(self, self.next_pid, beh)
        self.next_pid += 1
        self.procs.append(p)
        self.log.append((self.now(), "spawn", p.pid))
        return p

    def kill(self, pid, sig):
        s = core.ACTIVE()
        if s is not None and not s.aborting:
            s.yield_point(("proc.kill", pid))
        p = next((q for q in self.procs if q.pid == pid), None)
        if p is not None:
            p._update()
        self.log.append((self.now(), "signal", pid, sig))
        if p is None or p.returncode is not None:
            raise ProcessLookupError(3, "sim: no such process")
        p.signalled = True
        if sig == 9:
            p.exit_time = self.now() if p.exit_time is None else min(p.exit_time, self.now())
        else:
            on = p.beh.get("on_sigint", ("exit", 0.0))
            if on != "ignore":
                t = self.now() + on[1]
                p.exit_time = t if p.exit_time is None else min(p.exit_time, t)
        p._update()

    def finalize(self):
        for p in self.procs:
            p._update()

    def max_alive(self):
        """Largest number of children alive at the same virtual instant (intervals [spawn, exit))."""
        pts = []
        for p in self.procs:
            pts.append((p.spawned, 1))
            if p.exit_time is not None:
                pts.append((p.exit_time, -1))
        pts.sort(key=lambda x: (x[0], x[1]))
        cur = best = 0
        for _, d in pts:
            cur += d
            best = max(best, cur)
        return best


def install(W, table):
    _table[0] = table
    mod = W.tricks
    if not getattr(mod, "_simproc", False):
        mod.subprocess = types.SimpleNamespace(Popen=lambda *a, **kw: T().Popen(*a, **kw), PIPE=-1)
        mod.kill_process = lambda pid, sig: T().kill(pid, sig)
        mod._simproc = True
