"""CLI behind /verif/check."""

from __future__ import annotations

import argparse
import importlib
import json
import os
import sys
import time

sys.path.insert(0, os.path.dirname(os.path.dirname(os.path.abspath(__file__))))

from vlib import runner  # noqa: E402
from vlib.runner import Failure, unjson  # noqa: E402


def main():
    ap = argparse.ArgumentParser()
    ap.add_argument("prop")
    ap.add_argument("--tier", default=os.environ.get("VERIF_TIER", "quick"), choices=["quick", "thorough"])
    ap.add_argument("--replay")
    ap.add_argument("--jobs", type=int, default=int(os.environ.get("VERIF_JOBS", "16")))
    ap.add_argument("--no-evidence", action="store_true")
    args = ap.parse_args()
    prop = args.prop.upper()
    try:
        seed = int(os.environ.get("VERIF_SEED", "1") or "1")
    except ValueError:
        seed = 1
    modname = f"props.{prop.lower()}"
    try:
        mod = importlib.import_module(modname)
    except Exception:
        import traceback

        traceback.print_exc()
        print(f"HARNESS-ERROR property={prop}: cannot import {modname}")
        return 2

    import logging

    logging.getLogger("watchdog").setLevel(logging.CRITICAL + 1)
    if args.replay:
        with open(args.replay) as f:
            body = json.load(f)
        case = unjson(body["case"])
        fails = mod.replay(case)
        if fails:
            for fl in fails:
                print(f"REPLAY-FAIL property={prop} signature={fl.signature}: {fl.message}")
            print(f"VIOLATION property={prop} replay={args.replay}")
            return 1
        print(f"REPLAY-PASS property={prop}")
        return 0

    t0 = time.time()
    known_seen = []
    # 1. exact reproducers of known findings
    known = runner.load_known(prop)
    repros = mod.known_repros() if hasattr(mod, "known_repros") else {}
    for e in known:
        case = repros.get(e["id"])
        still = True
        if case is not None:
            try:
                still = bool(mod.replay(case))
            except Exception as ex:  # reproducer itself broke: harness problem
                print(f"HARNESS-ERROR property={prop}: reproducer of {e['id']} raised {ex!r}")
                return 2
        if still:
            print(f"KNOWN-FINDING: property={prop} {e['id']} {e['what']}")
            known_seen.append(e["id"])

    # 1b. saved failing inputs of defects that were repaired (regress/<ID>-*.json): replayed on every run, both tiers
    reg_fails = []
    reg_n = 0
    import glob

    for path in sorted(glob.glob(os.path.join(os.path.dirname(os.path.dirname(os.path.abspath(__file__))), "regress", f"{prop}-*.json"))):
        with open(path) as f:
            body = json.load(f)
        try:
            reg_fails += mod.replay(unjson(body["case"]))
        except Exception as ex:
            print(f"HARNESS-ERROR property={prop}: regression input {os.path.basename(path)} raised {ex!r}")
            return 2
        reg_n += 1

    # 2. campaign
    specs = mod.shards(args.tier, seed)
    cap = getattr(mod, "WALL_CAP", {"quick": 900, "thorough": 5400})[args.tier]
    stats, errors = runner.run_shards(modname, specs, args.jobs, cap)
    stats.failures = reg_fails + list(stats.failures)
    stats.extra["regression_inputs_replayed"] = reg_n
    wall = time.time() - t0

    # 3. failures -> known / violation
    violations = []
    for fl in stats.failures:
        e = runner.match_known(prop, fl)
        if e is not None:
            if e["id"] not in known_seen:
                print(f"KNOWN-FINDING: property={prop} {e['id']} {e['what']}")
                known_seen.append(e["id"])
            continue
        violations.append(fl)

    if not args.no_evidence:
        runner.write_evidence(mod, args.tier, seed, stats, wall, len(violations), known_seen)

    rc = 0
    if violations:
        seen = set()
        for fl in violations:
            path = runner.write_replay(prop, fl)
            if path in seen:
                continue
            seen.add(path)
            print(f"FAIL property={prop} signature={fl.signature}: {fl.message[:2000]}")
            print(f"VIOLATION property={prop} replay={path}")
        rc = 1
    if errors:
        for e in errors:
            print(f"HARNESS-ERROR property={prop}: {e}")
        rc = rc or 2
    if stats.inconclusive and rc == 0:
        for m in stats.inconclusive[:10]:
            print(f"INCONCLUSIVE property={prop}: {m}")
        rc = 2
    min_eval = getattr(mod, "MIN_EVALUATIONS", {"quick": 1, "thorough": 1})[args.tier]
    if rc == 0 and stats.evaluations < min_eval:
        print(f"INCONCLUSIVE property={prop}: only {stats.evaluations} cases (< {min_eval})")
        rc = 2
    print(
        f"{'OK' if rc == 0 else 'NOT-OK'} property={prop} tier={args.tier} seed={seed} evaluations={stats.evaluations} "
        f"nontrivial={len(stats.nontrivial)} violations={len(violations)} known={known_seen} wall={wall:.1f}s"
    )
    return rc


if __name__ == "__main__":
    rc = main()
    sys.stdout.flush()
    os._exit(rc)
