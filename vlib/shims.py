"""Import shims that make the Windows (ReadDirectoryChangesW) and macOS (FSEvents) layers importable on Linux (C20).

winapi: ctypes.WinDLL / ctypes.WinError stand-ins and ctypes.wintypes.DWORD = c_uint32 (DWORD is 32 bit on the
real platform; Linux' wintypes.DWORD is a c_ulong and would change the FILE_NOTIFY_INFORMATION layout).
fsevents: a `_watchdog_fsevents` module whose NativeEvent exposes the same flag properties as the C extension
(src/watchdog_fsevents.c; bit values from FSEvents.h).
"""

from __future__ import annotations

import sys
import types

FLAGS = {
    "must_scan_subdirs": 0x1, "is_user_dropped": 0x2, "is_kernel_dropped": 0x4, "is_event_ids_wrapped": 0x8,
    "is_history_done": 0x10, "is_root_changed": 0x20, "is_mount": 0x40, "is_unmount": 0x80, "is_created": 0x100,
    "is_removed": 0x200, "is_inode_meta_mod": 0x400, "is_renamed": 0x800, "is_modified": 0x1000,
    "is_item_finder_info_modified": 0x2000, "is_owner_change": 0x4000, "is_xattr_mod": 0x8000, "is_file": 0x10000,
    "is_directory": 0x20000, "is_symlink": 0x40000, "is_own_event": 0x80000, "is_hardlink": 0x100000,
    "is_last_hardlink": 0x200000, "is_cloned": 0x400000,
}  # fmt: skip


def load_winapi():
    if "watchdog.observers.winapi" in sys.modules and getattr(sys.modules["watchdog.observers.winapi"], "_verif_shim", False):
        return sys.modules["watchdog.observers.winapi"], sys.modules["watchdog.observers.read_directory_changes"]
    import ctypes
    import ctypes.wintypes

    ctypes.wintypes.DWORD = ctypes.c_uint32

    class _Fn:
        def __call__(self, *a, **k):
            raise OSError("win32 API is not available in this harness")

    class _Dll:
        def __getattr__(self, name):
            f = _Fn()
            setattr(self, name, f)
            return f

    if not hasattr(ctypes, "WinDLL"):
        ctypes.WinDLL = lambda name: _Dll()
        ctypes.WinError = lambda *a: OSError("WinError")
    import importlib

    w = importlib.import_module("watchdog.observers.winapi")
    w._verif_shim = True
    r = importlib.import_module("watchdog.observers.read_directory_changes")
    assert ctypes.sizeof(w.FileNotifyInformation) in (13, 16), ctypes.sizeof(w.FileNotifyInformation)
    return w, r


def load_fsevents():
    if "watchdog.observers.fsevents" in sys.modules:
        return sys.modules["watchdog.observers.fsevents"], sys.modules["_watchdog_fsevents"]
    m = types.ModuleType("_watchdog_fsevents")

    class NativeEvent:
        def __init__(self, path="", inode=0, flags=0, id=0):  # noqa: A002
            self.path = path
            self.inode = inode
            self.flags = flags
            self.event_id = id

        @property
        def is_coalesced(self):
            f = self.flags
            return any((f & mk) == mk for mk in (0x300, 0x900, 0xA00))

        def __repr__(self):
            names = [k for k, v in FLAGS.items() if self.flags & v]
            return f'NativeEvent(path="{self.path}", inode={self.inode}, flags={"|".join(names)})'

    for name, bit in FLAGS.items():
        setattr(NativeEvent, name, property(lambda self, bit=bit: bool(self.flags & bit)))
    m.NativeEvent = NativeEvent
    m.add_watch = lambda *a, **k: None
    m.remove_watch = lambda *a, **k: None
    m.stop = lambda *a, **k: None
    m.read_events = lambda *a, **k: None
    sys.modules["_watchdog_fsevents"] = m
    import importlib

    f = importlib.import_module("watchdog.observers.fsevents")
    return f, m
