"""In-memory file system exposed through the injectable stat/listdir interface of
DirectorySnapshot / PollingEmitter (the PollingObserverVFS interface).

A tree is a dict  relpath -> (kind, ino, dev, mtime, size)  with relpath "" for the root
(always present unless the case removes it), "a", "a/b", ... ; kind is "f" or "d".
"""

from __future__ import annotations

import errno
import os
import stat as statmod
from types import SimpleNamespace

ROOT = "/r"


def full(rel, root=ROOT):
    return root if rel == "" else root + "/" + rel


def rel_of(path, root=ROOT):
    if path == root:
        return ""
    assert path.startswith(root + "/"), path
    return path[len(root) + 1 :]


def parent(rel):
    return rel.rpartition("/")[0]


def normalize_tree(entries):
    """entries: iterable of (rel, kind, ino, dev, mtime, size) -> dict; drops entries whose parent is
    missing or not a directory."""
    d = {}
    for rel, kind, ino, dev, mtime, size in sorted(entries, key=lambda e: (e[0].count("/"), e[0])):
        if rel != "" and (parent(rel) not in d or d[parent(rel)][0] != "d"):
            continue
        d[rel] = (kind, ino, dev, mtime, size)
    return d


def tree_to_case(tree):
    return [[rel, *tree[rel]] for rel in sorted(tree)]


def case_to_tree(lst):
    return {e[0]: tuple(e[1:]) for e in lst}


class Entry:
    __slots__ = ("name",)

    def __init__(self, name):
        self.name = name


FILE_TYPES = [statmod.S_IFREG, statmod.S_IFREG, statmod.S_IFSOCK, statmod.S_IFBLK, statmod.S_IFCHR, statmod.S_IFIFO, statmod.S_IFLNK]
FILE_PERMS = [0o644, 0o755, 0o4755, 0o000, 0o600]
DIR_PERMS = [0o755, 0o1777, 0o2755, 0o700]


class VFS:
    """stat/listdir over a tree, with a call log and an optional hook called before every call:
    hook(vfs, index, op, rel) may raise OSError or mutate vfs.tree."""

    def __init__(self, tree, root=ROOT, hook=None):
        self.tree = dict(tree)
        self.root = root
        self.hook = hook
        self.calls = []  # (op, rel)

    def _pre(self, op, path):
        rel = rel_of(path, self.root)
        idx = len(self.calls)
        self.calls.append((op, rel))
        if self.hook is not None:
            self.hook(self, idx, op, rel)
        return rel

    def stat(self, path):
        rel = self._pre("stat", path)
        if rel not in self.tree:
            raise FileNotFoundError(errno.ENOENT, os.strerror(errno.ENOENT), path)
        kind, ino, dev, mtime, size = self.tree[rel]
        # "not a directory" comes in every file type, and both kinds with unusual permission bits (by inode number)
        if kind == "d":
            mode = statmod.S_IFDIR | DIR_PERMS[ino % len(DIR_PERMS)]
        else:
            mode = FILE_TYPES[ino % len(FILE_TYPES)] | FILE_PERMS[ino % len(FILE_PERMS)]
        return SimpleNamespace(st_ino=ino, st_dev=dev, st_mode=mode, st_mtime=mtime, st_size=size)

    def listdir(self, path):
        rel = self._pre("listdir", path)
        if rel not in self.tree:
            raise FileNotFoundError(errno.ENOENT, os.strerror(errno.ENOENT), path)
        if self.tree[rel][0] != "d":
            raise NotADirectoryError(errno.ENOTDIR, os.strerror(errno.ENOTDIR), path)
        prefix = rel + "/" if rel else ""
        names = sorted(r[len(prefix) :] for r in self.tree if r != "" and r.startswith(prefix) and "/" not in r[len(prefix) :])
        return [Entry(n) for n in names]


def visible(tree, recursive):
    """The part of a tree a snapshot may contain."""
    if recursive:
        return dict(tree)
    return {r: v for r, v in tree.items() if r.count("/") == 0}


def reference_diff(old, new):
    """Independent reference: diff of two {rel: (kind, ino, dev, mtime, size)} trees keyed by (ino, dev).
    Precondition: every (ino, dev) has one path in each tree."""
    oid = {(v[1], v[2]): r for r, v in old.items()}
    nid = {(v[1], v[2]): r for r, v in new.items()}
    assert len(oid) == len(old) and len(nid) == len(new)
    created = {r for i, r in nid.items() if i not in oid}
    deleted = {r for i, r in oid.items() if i not in nid}
    moved = {(oid[i], nid[i]) for i in oid if i in nid and oid[i] != nid[i]}
    modified = {oid[i] for i in oid if i in nid and (old[oid[i]][3], old[oid[i]][4]) != (new[nid[i]][3], new[nid[i]][4])}
    return created, deleted, moved, modified


def snapshot_content_error(snap, entries, root=ROOT):
    """A DirectorySnapshot must contain exactly `entries` ({rel: (kind, ino, dev, mtime, size)}) and hand back, through
    every accessor, the stat data the stat function returned.  Returns a message or None."""
    want = {full(r, root) for r in entries}
    if set(snap.paths) != want:
        return f"snapshot paths {sorted(snap.paths)} differ from the tree {sorted(want)}"
    for r, (kind, ino, dev, mtime, size) in entries.items():
        p = full(r, root)
        got = {"inode": snap.inode(p), "isdir": snap.isdir(p), "mtime": snap.mtime(p), "size": snap.size(p), "path(inode)": snap.path((ino, dev))}
        exp = {"inode": (ino, dev), "isdir": kind == "d", "mtime": mtime, "size": size, "path(inode)": p}
        if got != exp:
            bad = sorted(k for k in exp if got[k] != exp[k])
            return f"snapshot accessors of {p}: {', '.join(f'{k} = {got[k]!r} (stat said {exp[k]!r})' for k in bad)}"
        si = snap.stat_info(p)
        if si is None or (si.st_ino, si.st_dev, si.st_mtime, si.st_size) != (ino, dev, mtime, size):
            return f"snapshot.stat_info({p}) = {si!r}, not the stat data of the entry"
    return None
