"""Common machinery: shards, seeds, evidence, replay files, known findings, exit codes.

A property module (props/cNN.py) provides

    ID, LEVEL, RULE, ASSUMPTIONS, DESIGN_REF
    shards(tier, seed)      -> list of picklable shard specs
    run_shard(spec)         -> Stats
    replay(case)            -> list[Failure]   (re-executes exactly that case)
    known_repros()          -> optional: dict known-id -> case   (exact reproducers)

Exit codes of a check: 0 held / 1 VIOLATION / 2 harness error or inconclusive.
"""

from __future__ import annotations

import hashlib
import json
import multiprocessing as mp
import os
import sys
import time
import traceback
from collections import Counter

VERIF = os.path.dirname(os.path.dirname(os.path.abspath(__file__)))


class Violation(Exception):
    """Raised by an oracle.  `signature` is the symptom class used to match known findings."""

    def __init__(self, message, signature="", extra=None):
        super().__init__(message)
        self.message = message
        self.signature = signature
        self.extra = extra or {}


class Inconclusive(Exception):
    """Harness could not decide (budget, sentinel cap on a healthy observer, ...): exit 2."""


def jsonable(x):
    if isinstance(x, bytes):
        return {"__bytes__": x.decode("latin-1")}
    if isinstance(x, (str, int, float, bool)) or x is None:
        return x
    if isinstance(x, (list, tuple)):
        return [jsonable(i) for i in x]
    if isinstance(x, (set, frozenset)):
        return sorted((jsonable(i) for i in x), key=repr)
    if isinstance(x, dict):
        return {str(k) if not isinstance(k, str) else k: jsonable(v) for k, v in x.items()}
    return repr(x)


def unjson(x):
    if isinstance(x, dict):
        if set(x) == {"__bytes__"}:
            return x["__bytes__"].encode("latin-1")
        return {k: unjson(v) for k, v in x.items()}
    if isinstance(x, list):
        return [unjson(i) for i in x]
    return x


def digest(x) -> str:
    return hashlib.sha1(json.dumps(jsonable(x), sort_keys=True).encode()).hexdigest()[:16]


class Failure:
    def __init__(self, case, message, signature="", extra=None):
        self.case = case
        self.message = message
        self.signature = signature
        self.extra = extra or {}

    def to_json(self):
        return {
            "case": jsonable(self.case),
            "message": self.message,
            "signature": self.signature,
            "extra": jsonable(self.extra),
        }


class Stats:
    """Mergeable counters of one shard."""

    MAX_SAMPLES = 6

    def __init__(self):
        self.evaluations = 0
        self.nontrivial = set()  # digests of normalized non-trivial cases
        self.classes = Counter()
        self.samples = []
        self.failures = []  # list[Failure]
        self.excluded = 0
        self.extra = Counter()  # any further integer counters
        self.exhaustive = None  # None = n/a, True/False when a finite domain was (not) completed
        self.notes = []
        self.inconclusive = []  # messages

    def case(self, normalized, nontrivial, classes=(), sample=None):
        self.evaluations += 1
        if nontrivial:
            self.nontrivial.add(normalized if isinstance(normalized, str) and len(normalized) == 16 else digest(normalized))
        for c in classes:
            self.classes[c] += 1
        if sample is not None and len(self.samples) < self.MAX_SAMPLES:
            self.samples.append(jsonable(sample))

    def fail(self, case, message, signature="", extra=None):
        self.failures.append(Failure(case, message, signature, extra))

    def merge(self, other):
        self.evaluations += other.evaluations
        self.nontrivial |= other.nontrivial
        self.classes.update(other.classes)
        for s in other.samples:
            if len(self.samples) < self.MAX_SAMPLES * 2:
                self.samples.append(s)
        self.failures.extend(other.failures)
        self.excluded += other.excluded
        self.extra.update(other.extra)
        if other.exhaustive is not None:
            self.exhaustive = other.exhaustive if self.exhaustive is None else (self.exhaustive and other.exhaustive)
        self.notes.extend(other.notes)
        self.inconclusive.extend(other.inconclusive)


def derive_seed(seed, *parts) -> int:
    h = hashlib.sha256(repr((seed,) + parts).encode()).digest()
    return int.from_bytes(h[:4], "big")


# --------------------------------------------------------------------------- hypothesis helper


def hyp_search(strategy, body, *, seed, max_examples, shrink=True, stateful_steps=None):
    """Run `body(case)` over cases drawn from `strategy`.  body raises Violation on an oracle
    failure.  Returns None or (minimal_case, Violation).  Any other exception propagates
    (harness error)."""
    import hypothesis
    from hypothesis import HealthCheck, Phase, given, settings

    last = {}
    phases = [Phase.generate, Phase.shrink] if shrink else [Phase.generate]

    @hypothesis.seed(seed)
    @settings(
        max_examples=max_examples,
        database=None,
        deadline=None,
        derandomize=False,
        report_multiple_bugs=False,
        suppress_health_check=list(HealthCheck),
        phases=phases,
        print_blob=False,
    )
    @given(strategy)
    def t(case):
        try:
            body(case)
        except Violation as v:
            last["case"] = case
            last["v"] = v
            raise

    try:
        t()
    except Violation:
        return last["case"], last["v"]
    except BaseException as e:
        # hypothesis may wrap (Flaky etc.); if we recorded a violation, report that one
        if "v" in last and type(e).__name__ in ("Flaky", "FlakyFailure", "FlakyReplay"):
            return last["case"], last["v"]
        raise
    return None


# --------------------------------------------------------------------------- parallel execution


def _worker(args):
    modname, spec = args
    import importlib
    import logging

    logging.getLogger("watchdog").setLevel(logging.CRITICAL + 1)
    logging.getLogger("watchdog").addHandler(logging.NullHandler())

    try:
        mod = importlib.import_module(modname)
        st = mod.run_shard(spec)
        return ("ok", st)
    except Inconclusive as e:
        return ("inconclusive", f"{spec!r}: {e}")
    except BaseException:
        return ("error", f"shard {spec!r}\n{traceback.format_exc()}")


def run_shards(modname, specs, jobs, wall_cap):
    """Run shards in worker processes under a parent-side wall clock watchdog."""
    total = Stats()
    errors = []
    if not specs:
        return total, errors
    if jobs <= 1 or len(specs) == 1 and os.environ.get("VERIF_INPROC"):
        for s in specs:
            kind, val = _worker((modname, s))
            if kind == "ok":
                total.merge(val)
            elif kind == "inconclusive":
                total.inconclusive.append(val)
            else:
                errors.append(val)
        return total, errors
    ctx = mp.get_context("fork")
    with ctx.Pool(min(jobs, len(specs)), maxtasksperchild=None) as pool:
        asyncs = [pool.apply_async(_worker, ((modname, s),)) for s in specs]
        deadline = time.time() + wall_cap
        for a, s in zip(asyncs, specs):
            try:
                kind, val = a.get(timeout=max(1.0, deadline - time.time()))
            except mp.TimeoutError:
                errors.append(f"shard {s!r}: no result within the wall-clock cap of {wall_cap}s (worker killed)")
                pool.terminate()
                break
            if kind == "ok":
                total.merge(val)
            elif kind == "inconclusive":
                total.inconclusive.append(val)
            else:
                errors.append(val)
    return total, errors


# --------------------------------------------------------------------------- known findings


def load_known(prop):
    path = os.path.join(VERIF, "known_findings.json")
    if not os.path.exists(path):
        return []
    with open(path) as f:
        data = json.load(f)
    return [e for e in data.get("findings", []) if e.get("property") == prop and e.get("kind") == "known"]


def known_ids(prop):
    return {e["id"] for e in load_known(prop)}


def match_known(prop, failure):
    for e in load_known(prop):
        if failure.signature and failure.signature in e.get("signatures", []):
            return e
    return None


# --------------------------------------------------------------------------- evidence / replay


def write_replay(prop, failure):
    d = os.environ.get("VERIF_REPLAY_DIR") or os.path.join(VERIF, "replays")
    os.makedirs(d, exist_ok=True)
    body = {"property": prop, **failure.to_json()}
    name = f"{prop}-{digest(body['case'])}.json"
    path = os.path.join(d, name)
    with open(path, "w") as f:
        json.dump(body, f, indent=1, sort_keys=True)
    return path


def write_evidence(mod, tier, seed, stats, wall, violations, known_seen, extra_cov=None):
    cov = {
        "evaluations": stats.evaluations,
        "distinct_nontrivial": len(stats.nontrivial),
        "rule": mod.RULE,
        "samples": stats.samples[:12] if stats.samples else [],
        "classes": dict(sorted(stats.classes.items())),
        "excluded_by_known_finding": stats.excluded,
        "known_findings_seen": known_seen,
    }
    if stats.exhaustive is not None:
        cov["exhaustive"] = bool(stats.exhaustive)
    for k, v in stats.extra.items():
        cov[k] = v
    if stats.notes:
        cov["notes"] = sorted(set(stats.notes))[:20]
    if extra_cov:
        cov.update(extra_cov)
    ev = {
        "property_id": mod.ID,
        "tier": tier,
        "seed": seed,
        "level": mod.LEVEL,
        "coverage": cov,
        "assumptions": list(mod.ASSUMPTIONS),
        "wall_s": round(wall, 2),
        "violations": violations,
    }
    d = os.path.join(VERIF, "evidence")
    os.makedirs(d, exist_ok=True)
    tmp = os.path.join(d, f".{mod.ID}.json.tmp")
    with open(tmp, "w") as f:
        json.dump(ev, f, indent=1, sort_keys=True)
    os.replace(tmp, os.path.join(d, f"{mod.ID}.json"))
    return ev
