"""C08 - a rename arrives as one paired move; no native event is lost or duplicated.

Engine E2 + simulated inotify kernel: the real Inotify.read_events / _parse_event_buffer / InotifyBuffer /
DelayedQueue run over byte-exact inotify_event records queued by the kernel model.  Generated: native record
sequences (moves with / without partner, swapped halves, other events, a sub-watch's IN_IGNORED), the cut of
the sequence into injection batches and read() sizes, inter-batch virtual gaps around the pairing delay, a
consumer with think time, an optional early close; schedules by bounded DFS and at random.
"""

from __future__ import annotations

from hypothesis import strategies as st

from vlib import runner, simkernel as sk
from vlib.dsched import core, explore, harness, loader
from vlib.runner import Stats, Violation

ID = "C08"
LEVEL = "exploration"
DESIGN_REF = "DESIGN.md §3.2, §4 C08"
RULE = (
    "cases = (native sequence of 1-10 records over {MOVED_FROM c, MOVED_TO c, CREATE, DELETE, MODIFY, nameless ATTRIB of a watched directory itself, sub-watch IGNORED} "
    "x file/dir, each cookie on at most one FROM and one TO incl. swapped order; batches [(gap, number of records)] with "
    "gaps from {0, d/2, d-eps, d, d+eps, 2d}; records-per-read cuts; consumer think time; optional early close; "
    "schedule).  Exhaustive: DFS with <= k preemptions (k=1 quick, 2 thorough) over 10 fixed programs with line points in "
    "inotify_buffer.py and delayed_queue.py, and every cut of every sequence of length <= 4 (quick) / 5 (thorough) over a "
    "reduced alphabet under the default schedule; random: Hypothesis programs x random schedules.  non-trivial = a pair "
    "split across two batches, or a gap within eps of d, or a preemption taken inside the buffer/queue code; distinct = "
    "digest of (program, schedule decisions)"
)
ASSUMPTIONS = [
    "simulated inotify kernel (vlib/simkernel.py): never re-used descriptor numbers, byte-exact records; validated against the real kernel by selftest/test_simkernel.py",
    "strict virtual clock; an unpaired MOVED_FROM must not be delivered before injection time + d; a MOVED_TO injected strictly before its MOVED_FROM's injection time + d must come as one pair (equality is 'may')",
    "order rule: singles keep kernel order, a pair sits anywhere between the positions of its two halves",
]
D = 0.5
EPS = 2.0**-10
GAPS = [0.0, D / 2, D - EPS, D, D + EPS, 2 * D]
ROOT = b"/w"


def make_main(prog):
    W = loader.load()
    sk.install(W)
    th, tm = core.fake_threading, core.fake_time

    def main(s):
        k = sk.new_kernel()
        k.fs_makedirs(ROOT + b"/sub")
        k.cuts = prog.get("cuts") or None
        now = lambda: s.now  # noqa: E731
        buf = W.inotify_buffer.InotifyBuffer(ROOT, recursive=True)
        ino = buf._inotify
        fd = ino.fd
        wd_root = ino._wd_for_path[ROOT]
        wd_sub = ino._wd_for_path[ROOT + b"/sub"]

        def consumer():
            while True:
                e = buf.read_event()
                t = now()
                if e is None:
                    s.record("end", t)
                    break
                if isinstance(e, tuple):
                    s.record("pair", (e[0].name, e[1].name, t))
                else:
                    s.record("single", (e.name or b"@" + e.src_path, t))  # nameless events: identified by their watch path
                if prog["think"]:
                    tm.sleep(prog["think"])

        c = th.Thread(target=consumer, name="consumer")
        c.start()
        i = 0
        recs = prog["records"]
        for gap, n in prog["batches"]:
            if gap:
                tm.sleep(gap)
            for r in recs[i : i + n]:
                kind, cookie, isdir, idx = r[:4]
                name_idx = r[4] if len(r) > 4 else idx  # a record may repeat an earlier record's name: the same change twice
                mask = {"FROM": sk.IN_MOVED_FROM, "TO": sk.IN_MOVED_TO, "CREATE": sk.IN_CREATE, "DELETE": sk.IN_DELETE, "MODIFY": sk.IN_MODIFY, "IGNORED": sk.IN_IGNORED,
                        "SELFROOT": sk.IN_ATTRIB | sk.IN_ISDIR, "SELFSUB": sk.IN_ATTRIB | sk.IN_ISDIR}[kind]
                if kind == "IGNORED":
                    queued = k.inject(fd, wd_sub, mask, 0, b"")
                elif kind in ("SELFROOT", "SELFSUB"):
                    # a nameless record: the event concerns the watched directory itself
                    queued = k.inject(fd, wd_root if kind == "SELFROOT" else wd_sub, mask, 0, b"")
                else:
                    # directories are never really created in the virtual tree: keep IN_CREATE|IN_ISDIR away (it triggers a walk)
                    if isdir and kind != "CREATE":
                        mask |= sk.IN_ISDIR
                    queued = k.inject(fd, wd_root, mask, cookie, b"e%d" % name_idx)
                # the kernel itself merges a record identical to the newest unread one: such a record is never read
                s.record("inject" if queued else "merged-by-kernel", (idx, now()))
            i += n
        if prog.get("early_close") is not None:
            tm.sleep(prog["early_close"])
        else:
            tm.sleep(3 * D + len(recs) * (prog["think"] or 0) + 1)
            s.record("settled", now())
        buf.close()
        s.record("closed", now())
        c.join()
        s.record("late", buf.read_event())
        return k

    return main


def check(prog, r, s):
    v = harness.basic_verdict(r)
    if v:
        raise Violation(f"{v[1]} (program {prog})", v[0])
    merged = {p[0] for seq, tid, tag, p in s.log if tag == "merged-by-kernel"}
    prog = dict(prog, records=[r_ for r_ in prog["records"] if r_[3] not in merged])
    recs = {}
    pending_by_name = {}  # records that carry the same name are told apart by their order
    for r_ in prog["records"]:
        kind, cookie, isdir, idx = r_[:4]
        if kind == "IGNORED":
            continue
        key = {"SELFROOT": b"@" + ROOT, "SELFSUB": b"@" + ROOT + b"/sub"}.get(kind, f"e{r_[4] if len(r_) > 4 else idx}".encode())
        recs[key] = (kind, cookie, isdir, idx)
        pending_by_name.setdefault(key, []).append((kind, cookie, isdir, idx))

    def take(name):
        lst = pending_by_name.get(name)
        if not lst:
            raise Violation(f"record {name!r} was delivered more often than the kernel queued it (program {prog})", "duplicate")
        return lst.pop(0)
    inj_t = {}
    delivered = []  # ("single", idx, t) | ("pair", fidx, tidx, t)
    ended = False
    for seq, tid, tag, p in s.log:
        if tag == "inject":
            inj_t[p[0]] = p[1]
        elif tag == "single":
            if p[0] not in recs:
                raise Violation(f"an event that was never queued by the kernel was delivered: {p[0]!r} (program {prog})", "invented")
            delivered.append(("single", take(p[0])[3], p[1]))
        elif tag == "pair":
            if p[0] not in recs or p[1] not in recs:
                raise Violation(f"pair with unknown halves {p} (program {prog})", "invented")
            delivered.append(("pair", take(p[0])[3], take(p[1])[3], p[2]))
        elif tag == "end":
            ended = True
        elif tag == "late" and p is not None:
            raise Violation(f"read_event() after close() returned {p!r} (program {prog})", "read-after-close")
    if not ended:
        raise Violation(f"the consumer never got the end marker after close() (program {prog})", "no-end-marker")
    by_idx = {r_[3]: tuple(r_[:4]) for r_ in prog["records"]}
    flat = []
    for d in delivered:
        flat += [d[1]] if d[0] == "single" else [d[1], d[2]]
    if len(flat) != len(set(flat)):
        dup = sorted(x for x in set(flat) if flat.count(x) > 1)
        raise Violation(f"records {dup} were delivered more than once (delivered {delivered}; program {prog})", "duplicate")
    early = prog.get("early_close") is not None
    if not early:
        missing = sorted(set(r_[3] for r_ in prog["records"] if r_[0] != "IGNORED") - set(flat))
        if missing:
            raise Violation(f"records {missing} read from the kernel were never handed to the consumer (delivered {delivered}; program {prog})", "lost")
    # order
    last = -1
    for d in delivered:
        if d[0] == "single":
            if d[1] <= last:
                raise Violation(f"kernel order not kept: {delivered} (program {prog})", "order")
            last = d[1]
        else:
            f, t = d[1], d[2]
            if by_idx[f][0] != "FROM" or by_idx[t][0] != "TO" or by_idx[f][1] != by_idx[t][1]:
                raise Violation(f"pair ({f},{t}) does not join the two halves of one rename (program {prog})", "wrong-pair")
            if t <= last:
                raise Violation(f"kernel order not kept around pair ({f},{t}): {delivered} (program {prog})", "order")
            last = max(last, f)
    split = False
    for d in delivered:
        if d[0] == "single" and by_idx[d[1]][0] == "FROM":
            if d[2] < inj_t[d[1]] + D - 1e-12:
                raise Violation(f"unpaired MOVED_FROM e{d[1]} queued at {inj_t[d[1]]} was delivered alone at {d[2]}, before the delay {D} elapsed (program {prog})", "early-single")
            # strict clock: a partner injected strictly before the deadline must have been paired
            partner = [tuple(x[:4]) for x in prog["records"] if x[0] == "TO" and x[1] == by_idx[d[1]][1] and x[3] > d[1]]
            # (only if the partner was read from the kernel at all, i.e. it was handed out too)
            if partner and partner[0][3] in flat and inj_t[partner[0][3]] < inj_t[d[1]] + D - 1e-12 and not prog["think"]:
                raise Violation(
                    f"MOVED_FROM e{d[1]} (queued at {inj_t[d[1]]}) and MOVED_TO e{partner[0][3]} (queued at {inj_t[partner[0][3]]}, before the delay expired) "
                    f"were delivered separately: {delivered} (program {prog})",
                    "unpaired",
                )
        if d[0] == "pair" and inj_t[d[1]] != inj_t[d[2]]:
            split = True
    near = any(abs(g - D) <= EPS and g for g, _ in prog["batches"])
    cl = []
    if split:
        cl.append("pair-split-across-batches")
    if near:
        cl.append("gap-near-delay")
    if r.preemptions:
        cl.append(f"preemptions={min(r.preemptions, 3)}")
    if early:
        cl.append("early-close")
    if any(d[0] == "pair" for d in delivered):
        cl.append("has-pair")
    if any(d[0] == "single" and by_idx[d[1]][0] == "FROM" for d in delivered):
        cl.append("unpaired-from")
    if prog.get("cuts"):
        cl.append("read-cuts")
    if any(len(v_) for v_ in [[r_ for r_ in prog["records"] if len(r_) > 4]]):
        cl.append("identical-record-read-twice")
    if merged:
        cl.append("identical-record-merged-by-kernel")
    return split or near or r.preemptions > 0, cl


def R(kind, cookie, isdir, idx):
    return (kind, cookie, isdir, idx)


FIXED = [
    {"records": [R("FROM", 1, False, 0), R("TO", 1, False, 1)], "batches": [(0.0, 1), (D - EPS, 1)], "think": 0, "cuts": None},
    {"records": [R("FROM", 1, True, 0), R("CREATE", 0, False, 1), R("TO", 1, True, 2)], "batches": [(0.0, 2), (D / 2, 1)], "think": 0, "cuts": None},
    {"records": [R("FROM", 1, False, 0), R("TO", 1, False, 1)], "batches": [(0.0, 1), (D + EPS, 1)], "think": 0, "cuts": None},
    {"records": [R("TO", 1, False, 0), R("FROM", 1, False, 1), R("MODIFY", 0, False, 2)], "batches": [(0.0, 3)], "think": 0, "cuts": [1]},
    {"records": [R("FROM", 1, False, 0), R("FROM", 2, False, 1), R("TO", 2, False, 2), R("TO", 1, False, 3)], "batches": [(0.0, 2), (D / 2, 2)], "think": 0, "cuts": None},
    {"records": [R("FROM", 1, False, 0), R("IGNORED", 0, False, 1), R("DELETE", 0, False, 2), R("TO", 1, False, 3)], "batches": [(0.0, 4)], "think": D / 2, "cuts": [2]},
    {"records": [R("FROM", 1, False, 0), R("TO", 1, False, 1)], "batches": [(0.0, 1), (D / 2, 1)], "think": 0, "cuts": None, "early_close": D / 4},
    # the partner arrives exactly when the delay expires: reader (remove) and consumer (pop) run at the same instant
    {"records": [R("FROM", 1, False, 0), R("TO", 1, False, 1)], "batches": [(0.0, 1), (D, 1)], "think": 0, "cuts": None},
    {"records": [R("FROM", 1, True, 0), R("MODIFY", 0, False, 1), R("TO", 1, True, 2)], "batches": [(0.0, 2), (D, 1)], "think": 0, "cuts": None},
    {"records": [R("CREATE", 0, False, 0), R("SELFROOT", 0, True, 1), R("SELFSUB", 0, True, 2)], "batches": [(0.0, 2), (0.0, 1)], "think": 0, "cuts": [1]},
    # the same record twice (two writes to one file), in one read and across reads, while the consumer waits on a MOVED_FROM
    {"records": [R("FROM", 1, False, 0), R("MODIFY", 0, False, 1), ("MODIFY", 0, False, 2, 1), ("MODIFY", 0, False, 3, 1)], "batches": [(0.0, 3), (D / 2, 1)], "think": 0, "cuts": None},
]


@st.composite
def programs(draw):
    n = draw(st.integers(1, 10))
    recs = []
    used_from, used_to = set(), set()
    ignored = False
    selfs = {"root": False, "sub": False}
    for i in range(n):
        kind = draw(st.sampled_from(["FROM", "FROM", "TO", "TO", "CREATE", "DELETE", "MODIFY", "IGNORED"]))
        cookie = 0
        if kind == "FROM":
            free = [c for c in (1, 2, 3) if c not in used_from]
            if not free:
                kind = "MODIFY"
            else:
                cookie = draw(st.sampled_from(free))
                used_from.add(cookie)
        elif kind == "TO":
            free = [c for c in (1, 2, 3) if c not in used_to]
            pending = [c for c in free if c in used_from]
            if not free:
                kind = "DELETE"
            else:
                cookie = draw(st.sampled_from(pending * 3 + free))
                used_to.add(cookie)
        elif kind == "IGNORED":
            if ignored:
                kind = "CREATE"
            ignored = True
        if kind in ("CREATE", "MODIFY") and draw(st.integers(0, 3)) == 0:
            # a nameless event about a watched directory itself (at most one per watch, never after that watch's IGNORED)
            if not selfs["root"]:
                kind, selfs["root"] = "SELFROOT", True
            elif not selfs["sub"] and not ignored:
                kind, selfs["sub"] = "SELFSUB", True
        prev_plain = [r_ for r_ in recs if r_[0] in ("MODIFY", "CREATE", "DELETE") and len(r_) == 4]
        if kind in ("MODIFY", "CREATE", "DELETE") and prev_plain and draw(st.integers(0, 3)) == 0:
            # the very same record once more (same mask, same name), as the kernel queues it for a repeated change
            o = prev_plain[-1]
            recs.append((o[0], 0, o[2], i, o[3]))
            continue
        recs.append(R(kind, cookie, draw(st.booleans()), i))
    batches = []
    left = n
    while left:
        k = draw(st.integers(1, left))
        batches.append((draw(st.sampled_from(GAPS)) if batches else 0.0, k))
        left -= k
    return {
        "records": recs,
        "batches": batches,
        "think": draw(st.sampled_from([0, 0, 0, D / 2])),
        "cuts": draw(st.one_of(st.none(), st.lists(st.integers(1, 3), min_size=1, max_size=3))),
        "early_close": draw(st.sampled_from([None, None, None, None, 0.0, D / 2, D])),
    }


def all_cuts(tier):
    """Every cut of every sequence of length <= L over a reduced alphabet, two gap choices, default schedule."""
    import itertools

    L = 4 if tier == "quick" else 5
    alpha = ["F1", "T1", "F2", "T2", "C", "I", "S"]
    for n in range(1, L + 1):
        for seq in itertools.product(alpha, repeat=n):
            if any(seq.count(x) > 1 for x in ("F1", "T1", "F2", "T2", "I", "S")):
                continue
            recs = []
            for i, x in enumerate(seq):
                kind = {"F": "FROM", "T": "TO", "C": "CREATE", "I": "IGNORED", "S": "SELFROOT"}[x[0]]
                recs.append(R(kind, int(x[1]) if len(x) > 1 else 0, False, i))
            for mask in range(2 ** (n - 1)):
                sizes, cur = [], 1
                for b in range(n - 1):
                    if mask >> b & 1:
                        sizes.append(cur)
                        cur = 1
                    else:
                        cur += 1
                sizes.append(cur)
                for gap in (D / 2, D + EPS):
                    yield {"records": recs, "batches": [(0.0 if j == 0 else gap, sz) for j, sz in enumerate(sizes)], "think": 0, "cuts": None}


LINES = ("inotify_buffer", "delayed_queue")
NSH = 16


def shards(tier, seed):
    return [(k, tier, seed, i) for k in ("dfs", "cuts", "rand") for i in range(NSH)]


def run_shard(spec):
    kind, tier, seed, i = spec
    harness.ensure_lines(LINES)
    st_ = Stats()
    if kind == "dfs":
        bound = 1 if tier == "quick" else 2
        st_.exhaustive = True
        total = 0
        for pi, prog in enumerate(FIXED):
            main = make_main(prog)

            def rw(prefix, prog=prog, main=main, pi=pi):
                r, s = harness.execute(main, prefix=prefix)
                chosen = [d[2] for d in r.decisions]
                try:
                    nt, cl = check(prog, r, s)
                except Violation as v:
                    v.prefix = chosen
                    raise
                st_.case(["dfs", pi, chosen], nt, cl + [f"program{pi}"], sample={"program": prog, "prefix": chosen} if st_.evaluations % 700 == 0 else None)
                return r.decisions

            try:
                runs, done = explore.dfs(rw, bound, shard=(i, NSH), max_runs=100000)
            except Violation as v:
                st_.fail({"kind": "prefix", "program": prog, "prefix": getattr(v, "prefix", None)}, v.message, v.signature)
                st_.exhaustive = False
                continue
            total += runs
            st_.exhaustive = st_.exhaustive and done
        st_.extra["dfs_schedules"] = total
        st_.notes.append(f"DFS preemption bound {bound}")
        return st_
    if kind == "cuts":
        st_.exhaustive = True
        n = 0
        for k, prog in enumerate(all_cuts(tier)):
            if k % NSH != i:
                continue
            n += 1
            r, s = harness.execute(make_main(prog), prefix=[])
            try:
                nt, cl = check(prog, r, s)
            except Violation as v:
                st_.fail({"kind": "prefix", "program": prog, "prefix": []}, v.message, v.signature)
                st_.exhaustive = False
                break
            st_.case(["cuts", prog], nt, cl + ["all-cuts"], sample={"program": prog} if n % 800 == 1 else None)
        st_.extra["cut_programs"] = n
        return st_
    count = [0]

    def body(case):
        prog, sched = case
        count[0] += 1
        r, s = harness.execute_random(make_main(prog), sched)
        nt, cl = check(prog, r, s)
        st_.case(["rand", prog, [d[2] for d in r.decisions]], nt, cl, sample={"program": prog, "schedule": sched} if count[0] % 400 == 1 else None)

    res = runner.hyp_search(st.tuples(programs(), harness.SCHEDULES), body, seed=runner.derive_seed(seed, ID, i), max_examples=2000 if tier == "quick" else 20000)
    if res is not None:
        (prog, sched), v = res
        st_.fail({"kind": "random", "program": prog, "schedule": sched}, v.message, v.signature)
    st_.extra["random_executions"] = count[0]
    return st_


def _norm(prog):
    prog["records"] = [tuple(r_) for r_ in prog["records"]]
    prog["batches"] = [tuple(b) for b in prog["batches"]]
    return prog


def replay(case):
    harness.ensure_lines(LINES)
    prog = _norm(case["program"])
    try:
        if case["kind"] == "prefix":
            r, s = harness.execute(make_main(prog), prefix=case["prefix"] or [])
        else:
            fr, free = case["schedule"]
            r, s = harness.execute_random(make_main(prog), ([tuple(x) for x in fr], free))
        check(prog, r, s)
    except Violation as v:
        return [runner.Failure(case, v.message, v.signature)]
    return []
