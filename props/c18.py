"""C18 - tricks: debounced batches complete and ordered; one child at a time; stop ends all.

Engine E2 + simulated process table (vlib/simproc.py).  Sub-campaigns:
 (d) EventDebouncer: event/stop sequences with gaps around the debounce interval, feeder and stopper threads;
 (a) AutoRestartTrick: start, events through dispatch(), child self-exit at generated times, stop from a second
     thread, with/without debouncing and restart_on_command_exit, children that die on SIGINT after a delay or
     need SIGKILL;
 (s) ShellCommandTrick with wait_for_process / drop_during_process.
"""

from __future__ import annotations

from hypothesis import strategies as st

from vlib import runner, simproc
from vlib.dsched import core, explore, harness, loader
from vlib.runner import Stats, Violation

ID = "C18"
LEVEL = "exploration"
DESIGN_REF = "DESIGN.md §3.2, §4 C18"
RULE = (
    "cases = (kind in {debouncer, autorestart, shell}, program, schedule).  debouncer: <= 5 events (distinct, or with "
    "equal ones among them) with gaps from {0, "
    "I/2, I-eps, I, I+eps, 2I} (I = debounce interval 1.0 or 0), stop at a generated time; autorestart: 0-4 events with "
    "gaps, child behaviours (self-exit after t or never; dies on SIGINT after 0/0.1/0.6 s or ignores it), debounce 0|1, "
    "restart_on_command_exit on/off, stop from a second thread at a generated time; shell: 1-4 events, child run times, "
    "wait_for_process | drop_during_process.  Exhaustive: DFS with <= k preemptions (k=1/2) over fixed programs with "
    "line points in event_debouncer.py, process_watcher.py, tricks/__init__.py; random: Hypothesis programs x random "
    "schedules.  non-trivial = an event or stop() reaches the debouncer before its first wait, a self-exit racing an "
    "event restart, or stop() during a restart; distinct = digest of (program, schedule decisions)"
)
ASSUMPTIONS = [
    "simulated process table: a child's exit is a point on the virtual clock; SIGKILL ends it at once, SIGINT after the generated delay or never; killing a dead child raises ProcessLookupError like os.killpg",
    "events are fed serially through Trick.dispatch() from one feeder thread, as the observer's dispatcher does",
    "exact restart counts are asserted only for programs whose stimuli are >= 2 s apart and for children that obey SIGINT (no overlapping restarts); the safety clauses (one child at a time, nothing after stop(), helper threads gone) are asserted always",
]
I = 1.0
EPS = 2.0**-10
LINES = ("event_debouncer", "process_watcher", "tricks", "utils")

# ============================================================================ debouncer


def main_debouncer(prog):
    W = loader.load()
    th, tm = core.fake_threading, core.fake_time

    def main(s):
        now = lambda: s.now  # noqa: E731
        class E:
            """What is handed in: the i-th event; events with the same value compare equal (the same change reported twice)."""

            def __init__(self, i, val):
                self.i, self.val = i, val

            def __eq__(self, other):
                return isinstance(other, E) and other.val == self.val

            def __hash__(self):
                return hash(self.val)

        values = prog.get("values") or list(range(len(prog["events"])))

        def callback(evs):
            s.record("batch", ([e.i for e in evs], now()))
            if prog.get("cb_time"):
                tm.sleep(prog["cb_time"])  # a slow callback (e.g. a restart): events may arrive while it runs
            s.record("batch_done", now())

        deb = W.event_debouncer.EventDebouncer(prog["interval"], callback)
        deb.start()

        def feeder():
            for i, gap in enumerate(prog["events"]):
                if gap:
                    tm.sleep(gap)
                s.record("event", (i, now()))
                deb.handle_event(E(i, values[i]))

        f = th.Thread(target=feeder, name="feeder")
        f.start()
        if prog["stop_at"] is not None:
            tm.sleep(prog["stop_at"])
        else:
            f.join()
            tm.sleep(2 * I + 1 + 6 * (prog.get("cb_time") or 0))
            s.record("settled", now())
        s.record("stop_call", now())
        deb.stop()
        s.record("stop_ret", now())
        f.join()
        deb.join()
        tm.sleep(3 * I)
        return None

    return main


def check_debouncer(prog, r, s):
    v = harness.basic_verdict(r)
    if v:
        raise Violation(f"{v[1]} (debouncer program {prog})", v[0])
    arr = {}
    batches = []
    t_stop_call = t_stop_ret = None
    settled = False
    seq_stop_ret = None
    for seq, tid, tag, p in s.log:
        if tag == "event":
            arr[p[0]] = p[1]
        elif tag == "batch":
            batches.append((p[0], p[1], seq))
        elif tag == "stop_call":
            t_stop_call = p
        elif tag == "stop_ret":
            t_stop_ret = p
            seq_stop_ret = seq
        elif tag == "settled":
            settled = True
    flat = [e for b, _, _ in batches for e in b]
    if len(flat) != len(set(flat)):
        raise Violation(f"an event was passed to the callback twice: {batches} (program {prog})", "debounce-duplicate")
    if flat != sorted(flat):
        raise Violation(f"events passed to the callback out of arrival order: {batches} (program {prog})", "debounce-order")
    for b, t, seq in batches:
        if seq_stop_ret is not None and seq > seq_stop_ret:
            raise Violation(f"batch {b} delivered after stop() had returned (program {prog})", "debounce-after-stop")
        if not b:
            raise Violation(f"empty batch delivered at {t} (program {prog})", "debounce-empty-batch")
        last = max(arr[e] for e in b)
        if t < last + prog["interval"] - 1e-12:
            raise Violation(f"batch {b} delivered at {t}, only {t - last} s after its last event (interval {prog['interval']}; program {prog})", "debounce-early")
    if settled:
        missing = sorted(set(arr) - set(flat))
        if missing:
            raise Violation(f"events {missing} were handed to the debouncer, none arrived for more than 2 intervals, but they never reached the callback before stop() (batches {batches}; program {prog})", "debounce-lost")
    # classes
    cl = ["debouncer"]
    if prog.get("cb_time"):
        cl.append("slow-callback")
        done = [p for seq, tid, tag, p in s.log if tag == "batch_done"]
        starts = [t for _, t, _ in batches]
        if any(any(st_ <= a < dn for st_, dn in zip(starts, done)) for a in arr.values()):
            cl.append("event-during-callback")
    if prog["events"] and prog["events"][0] == 0:
        cl.append("event-before-first-wait-possible")
    if prog["stop_at"] == 0:
        cl.append("stop-before-first-wait-possible")
    if any(abs(g - prog["interval"]) <= EPS and g for g in prog["events"]):
        cl.append("gap-near-interval")
    if r.preemptions:
        cl.append(f"preemptions={min(r.preemptions, 3)}")
    return "event-before-first-wait-possible" in cl or "stop-before-first-wait-possible" in cl or "gap-near-interval" in cl or "event-during-callback" in cl, cl


# ============================================================================ auto-restart trick


def main_autorestart(prog):
    W = loader.load()
    th, tm = core.fake_threading, core.fake_time

    def main(s):
        now = lambda: s.now  # noqa: E731
        table = simproc.ProcTable(prog["children"])
        simproc.install(W, table)
        trick = W.tricks.AutoRestartTrick(
            ["server"], patterns=["*.py"], kill_after=1, debounce_interval_seconds=prog["debounce"], restart_on_command_exit=prog["restart_on_exit"]
        )
        s.record("start_call", now())
        trick.start()

        def feeder():
            for i, (gap, matching) in enumerate(prog["events"]):
                if gap:
                    tm.sleep(gap)
                e = W.events.FileModifiedEvent(f"/src/f{i}.py" if matching else f"/src/f{i}.txt")
                s.record("event", (i, matching, now()))
                trick.dispatch(e)
                s.record("event_done", (i, now()))

        f = th.Thread(target=feeder, name="feeder")
        f.start()
        if prog["stop_at"] is not None:
            tm.sleep(prog["stop_at"])
        else:
            f.join()
            tm.sleep(6.0)
            s.record("settled", now())
        s.record("stop_call", now())
        trick.stop()
        s.record("stop_ret", now())
        if prog.get("double_stop"):
            trick.stop()
        f.join()
        tm.sleep(5.0)
        table.finalize()
        s.record("final", now())
        return table, trick

    return main


def check_autorestart(prog, r, s):
    v = harness.basic_verdict(r)
    if v:
        raise Violation(f"{v[1]} (auto-restart program {prog})", v[0])
    table, trick = r.value
    t_stop_ret = t_stop_call = None
    events = []
    settled = False
    for seq, tid, tag, p in s.log:
        if tag == "stop_ret":
            t_stop_ret = p
        elif tag == "stop_call":
            t_stop_call = p
        elif tag == "event":
            events.append(p)
        elif tag == "settled":
            settled = True
    if table.max_alive() > 1:
        raise Violation(f"two children alive at the same time: {sorted(table.log)} (program {prog})", "two-children")
    for p in table.procs:
        if p.spawned > t_stop_ret:
            raise Violation(f"child {p.pid} started at {p.spawned}, after stop() had returned at {t_stop_ret} (program {prog})", "spawn-after-stop")
        if p.exit_time is None or p.exit_time > t_stop_ret:
            if p.spawned <= t_stop_ret:
                raise Violation(f"child {p.pid} still alive after stop() returned at {t_stop_ret} (exit {p.exit_time}; log {sorted(table.log)}; program {prog})", "child-alive-after-stop")
    # restart accounting for race-free programs
    calm = prog["calm"]
    if calm and settled:
        matching = sum(1 for e in events if e[1])
        spawns = len(table.procs)
        self_exits = 0
        if prog["restart_on_exit"]:
            self_exits = sum(1 for p in table.procs if not p.signalled and p.exit_time is not None and p.exit_time < t_stop_call)
        if prog["debounce"]:
            # events >= 2 s apart with a 1 s interval: every event is its own batch
            exp = matching + self_exits
        else:
            exp = matching + self_exits
        if spawns - 1 != exp:
            raise Violation(
                f"{spawns - 1} restarts for {matching} triggering events and {self_exits} self-exits (restart_count {trick.restart_count}; log {sorted(table.log)}; program {prog})",
                "restart-count",
            )
    if settled:
        # every triggering event is followed by a restart: a child is started at or after the event (after the
        # debounce interval when debouncing) - also for events that arrive while a restart is under way
        for i, matching, t in events:
            if not matching:
                continue
            need = t + (prog["debounce"] or 0) - 1e-9
            if not any(p.spawned >= need for p in table.procs):
                raise Violation(
                    f"triggering event #{i} at {t} was never followed by a restart (children started at {[p.spawned for p in table.procs]}; "
                    f"log {sorted(table.log)}; program {prog})",
                    "event-without-restart",
                )
    cl = ["autorestart", "debounced" if prog["debounce"] else "undebounced"]
    if calm:
        cl.append("calm")
    selfexit = any(p.exit_time is not None and not p.signalled for p in table.procs)
    if selfexit:
        cl.append("self-exit")
    if any(b.get("on_sigint") == "ignore" for b in prog["children"]):
        cl.append("child-ignores-sigint")
    if r.preemptions:
        cl.append(f"preemptions={min(r.preemptions, 3)}")
    racing = (not calm) and (selfexit or prog["stop_at"] is not None)
    return racing, cl


# ============================================================================ shell command trick


def main_shell(prog):
    W = loader.load()
    th, tm = core.fake_threading, core.fake_time

    def main(s):
        now = lambda: s.now  # noqa: E731
        table = simproc.ProcTable(prog["children"])
        simproc.install(W, table)
        trick = W.tricks.ShellCommandTrick("make", patterns=["*.py"], wait_for_process=prog["wait"], drop_during_process=prog["drop"])

        def feeder():
            for i, gap in enumerate(prog["events"]):
                if gap:
                    tm.sleep(gap)
                s.record("event", (i, now()))
                trick.dispatch(W.events.FileModifiedEvent(f"/src/f{i}.py"))

        f = th.Thread(target=feeder, name="feeder")
        f.start()
        f.join()
        tm.sleep(10.0)
        table.finalize()
        return table

    return main


def check_shell(prog, r, s):
    v = harness.basic_verdict(r)
    if v:
        raise Violation(f"{v[1]} (shell program {prog})", v[0])
    table = r.value
    if (prog["wait"] or prog["drop"]) and table.max_alive() > 1:
        raise Violation(f"commands overlap although wait_for_process={prog['wait']} drop_during_process={prog['drop']}: {sorted(table.log)} (program {prog})", "commands-overlap")
    n = len(prog["events"])
    if prog["wait"] and not prog["drop"] and len(table.procs) != n:
        raise Violation(f"{len(table.procs)} commands for {n} events with wait_for_process (program {prog})", "command-count")
    if not prog["wait"] and not prog["drop"] and len(table.procs) != n:
        raise Violation(f"{len(table.procs)} commands for {n} events (program {prog})", "command-count")
    if prog["drop"] and not table.procs and n:
        raise Violation(f"no command at all for {n} events (program {prog})", "command-count")
    cl = ["shell", f"wait={prog['wait']}", f"drop={prog['drop']}"]
    if r.preemptions:
        cl.append(f"preemptions={min(r.preemptions, 3)}")
    return (prog["wait"] or prog["drop"]) and any(g < 1.0 for g in prog["events"][1:]), cl


# ============================================================================ programs

GAPS_D = [0.0, I / 2, I - EPS, I, I + EPS, 2 * I]


@st.composite
def programs(draw):
    kind = draw(st.sampled_from(["debouncer", "debouncer", "autorestart", "autorestart", "autorestart", "shell"]))
    if kind == "debouncer":
        n = draw(st.integers(0, 5))
        return {
            "kind": kind,
            "interval": draw(st.sampled_from([I, I, I, 0])),
            "events": [draw(st.sampled_from(GAPS_D)) for _ in range(n)],
            "stop_at": draw(st.sampled_from([None, None, 0.0, I / 2, I, 2 * I + EPS])),
            "cb_time": draw(st.sampled_from([0, 0, I / 2, I + EPS])),
            "values": [draw(st.integers(0, 1)) for _ in range(n)] if draw(st.booleans()) else None,
        }
    if kind == "autorestart":
        calm = draw(st.booleans())
        n = draw(st.integers(0, 4))
        if calm:
            events = [(draw(st.sampled_from([2.0, 3.0])), draw(st.sampled_from([True, True, False]))) for _ in range(n)]
            children = [{"exit_after": None, "on_sigint": ("exit", draw(st.sampled_from([0.0, 0.1, 0.6])))} for _ in range(3)]
            return {"kind": kind, "calm": True, "events": events, "children": children, "debounce": draw(st.sampled_from([0, 1])), "restart_on_exit": draw(st.booleans()), "stop_at": None}
        events = [(draw(st.sampled_from([0.0, 0.1, 0.5, 1.0, 1.5])), draw(st.sampled_from([True, True, False]))) for _ in range(n)]
        children = [
            {"exit_after": draw(st.sampled_from([None, None, 0.0, 0.3, 1.0, 2.5])), "on_sigint": draw(st.sampled_from([("exit", 0.0), ("exit", 0.1), ("exit", 0.6), "ignore"]))}
            for _ in range(draw(st.integers(1, 3)))
        ]
        # the last behaviour repeats for all further spawns: it must not exit by itself (else the trick restarts it for ever)
        children.append({"exit_after": None, "on_sigint": draw(st.sampled_from([("exit", 0.0), ("exit", 0.1), "ignore"]))})
        return {
            "kind": kind,
            "calm": False,
            "events": events,
            "children": children,
            "debounce": draw(st.sampled_from([0, 0, 1])),
            "restart_on_exit": draw(st.booleans()),
            "stop_at": draw(st.sampled_from([None, 0.0, 0.3, 1.0, 2.0, 3.5])),
            "double_stop": draw(st.booleans()),
        }
    n = draw(st.integers(1, 4))
    wait = draw(st.booleans())
    return {
        "kind": "shell",
        "events": [draw(st.sampled_from([0.0, 0.2, 1.0, 3.0])) for _ in range(n)],
        "children": [{"exit_after": draw(st.sampled_from([0.0, 0.5, 2.0]))} for _ in range(3)],
        "wait": wait,
        "drop": draw(st.booleans()),
    }


FIXED = [
    {"kind": "debouncer", "interval": I, "events": [0.0, I / 2], "stop_at": None},
    {"kind": "debouncer", "interval": I, "events": [I / 2, I + EPS, I - EPS], "stop_at": None},
    {"kind": "debouncer", "interval": I, "events": [0.0], "stop_at": 0.0},
    {"kind": "debouncer", "interval": 0, "events": [0.0, 0.0, I], "stop_at": None},
    {"kind": "debouncer", "interval": I, "events": [0.0, I + I / 2], "stop_at": None, "cb_time": I},
    # equal events handed in back to back, and again after a different one: each is an event of its own
    {"kind": "debouncer", "interval": I, "events": [0.0, 0.0, I / 2, 0.0, 2 * I], "values": [7, 7, 8, 7, 7], "stop_at": None},
    {"kind": "autorestart", "calm": False, "events": [(0.5, True)], "children": [{"exit_after": 0.5, "on_sigint": ("exit", 0.1)}], "debounce": 0, "restart_on_exit": True, "stop_at": None},
    {"kind": "autorestart", "calm": False, "events": [(0.0, True), (0.0, True)], "children": [{"exit_after": None, "on_sigint": ("exit", 0.0)}], "debounce": 0, "restart_on_exit": True, "stop_at": 0.0},
    {"kind": "autorestart", "calm": False, "events": [(0.1, True)], "children": [{"exit_after": None, "on_sigint": "ignore"}], "debounce": 1, "restart_on_exit": False, "stop_at": 1.1},
    {"kind": "shell", "events": [0.0, 0.2], "children": [{"exit_after": 0.5}], "wait": False, "drop": True},
]

MAINS = {"debouncer": (main_debouncer, check_debouncer), "autorestart": (main_autorestart, check_autorestart), "shell": (main_shell, check_shell)}
NSH = 16


def shards(tier, seed):
    return [(k, tier, seed, i) for k in ("dfs", "rand") for i in range(NSH)]


def run_shard(spec):
    kind, tier, seed, i = spec
    harness.ensure_lines(LINES)
    st_ = Stats()
    if kind == "dfs":
        bound = 1 if tier == "quick" else 2
        st_.exhaustive = True
        total = 0
        for pi, prog in enumerate(FIXED):
            mk, chk = MAINS[prog["kind"]]
            main = mk(prog)

            def rw(prefix, prog=prog, main=main, pi=pi, chk=chk):
                r, s = harness.execute(main, prefix=prefix)
                chosen = [d[2] for d in r.decisions]
                try:
                    nt, cl = chk(prog, r, s)
                except Violation as v:
                    v.prefix = chosen
                    raise
                st_.case(["dfs", pi, chosen], nt, cl + [f"program{pi}"], sample={"program": prog, "prefix": chosen} if st_.evaluations % 300 == 0 else None)
                return r.decisions

            try:
                runs, done = explore.dfs(rw, bound, shard=(i, NSH), max_runs=2500 if tier == "quick" else 60000)
            except Violation as v:
                st_.fail({"kind": "prefix", "program": prog, "prefix": getattr(v, "prefix", None)}, v.message, v.signature)
                st_.exhaustive = False
                continue
            total += runs
            st_.exhaustive = st_.exhaustive and done
        st_.extra["dfs_schedules"] = total
        st_.notes.append(f"DFS preemption bound {bound}")
        return st_
    count = [0]

    def body(case):
        prog, sched = case
        count[0] += 1
        mk, chk = MAINS[prog["kind"]]
        r, s = harness.execute_random(mk(prog), sched)
        nt, cl = chk(prog, r, s)
        st_.case(["rand", prog, [d[2] for d in r.decisions]], nt, cl, sample={"program": prog, "schedule": sched} if count[0] % 200 == 1 else None)

    res = runner.hyp_search(st.tuples(programs(), harness.SCHEDULES), body, seed=runner.derive_seed(seed, ID, i), max_examples=1500 if tier == "quick" else 12000)
    if res is not None:
        (prog, sched), v = res
        st_.fail({"kind": "random", "program": prog, "schedule": sched}, v.message, v.signature)
    st_.extra["random_executions"] = count[0]
    return st_


def _norm(prog):
    if prog["kind"] == "autorestart":
        prog["events"] = [tuple(e) for e in prog["events"]]
        for c in prog["children"]:
            if isinstance(c.get("on_sigint"), list):
                c["on_sigint"] = tuple(c["on_sigint"])
    return prog


def replay(case):
    harness.ensure_lines(LINES)
    prog = _norm(case["program"])
    mk, chk = MAINS[prog["kind"]]
    try:
        if case["kind"] == "prefix":
            r, s = harness.execute(mk(prog), prefix=case["prefix"] or [])
        else:
            fr, free = case["schedule"]
            r, s = harness.execute_random(mk(prog), ([tuple(x) for x in fr], free))
        chk(prog, r, s)
    except Violation as v:
        return [runner.Failure(case, v.message, v.signature)]
    return []
