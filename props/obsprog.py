"""Shared program family for the observer-level E2 checks (C04, C05, C13, C06): the real BaseObserver with scripted
emitters, handlers with deterministic hashes (some calling the API re-entrantly) and API-calling threads,
executed under the deterministic scheduler; plus the history extraction used by the oracles."""

from __future__ import annotations

from hypothesis import strategies as st

from vlib.dsched import core, loader

PATHS = ["/p0", "/p1", "/p2"]
MARKER = 9999


def make_main(prog, *, emitter_fault=None, on_ready=None):
    """prog: dict(paths, scripts, handlers, initial, threads, late) -- see programs().  Returns main(s)."""
    W = loader.load()
    th, tm = core.fake_threading, core.fake_time
    api, ev = W.api, W.events

    def main(s):
        scripts = {p: list(seq) for p, seq in prog["scripts"].items()}
        # slow passes: {path: {position in the script: virtual seconds}} - the emitter spends that long inside ONE
        # queue_events() pass (longer than its timeout) before it queues the event, like a poll of a big tree
        slow = {p: {int(k): v for k, v in d.items()} for p, d in prog.get("slow", {}).items()}
        total = {p: len(seq) for p, seq in scripts.items()}
        inst = [0]
        fault = dict(emitter_fault or {})
        ctr = {"new": 0, "start": 0}

        class ScriptedEmitter(api.EventEmitter):
            def __init__(self, event_queue, watch, *, timeout=1.0, event_filter=None):
                i = ctr["new"]
                ctr["new"] += 1
                if fault.get("new") == i:
                    s.record("emitter_fault", ("new", watch.path))
                    raise OSError(2, "scripted emitter: construction failed")
                super().__init__(event_queue, watch, timeout=timeout, event_filter=event_filter)
                inst[0] += 1
                self.inst = inst[0]
                s.record("emitter_new", (watch.path, self.inst))

            def on_thread_start(self):
                i = ctr["start"]
                ctr["start"] += 1
                if fault.get("start") == i:
                    s.record("emitter_fault", ("start", self.watch.path))
                    raise OSError(2, "scripted emitter: start failed")

            def queue_events(self, timeout):
                sc = scripts.get(self.watch.path)
                if sc:
                    d = slow.get(self.watch.path, {}).get(total[self.watch.path] - len(sc))
                    eid = sc.pop(0)
                    if d:
                        s.record("slow_pass", (self.watch.path, self.inst, d))
                        tm.sleep(d)
                    e = ev.FileCreatedEvent(f"{self.watch.path}/e{eid}")
                    s.record("queued", (self.watch.path, eid, self.inst))
                    self.queue_event(e)
                else:
                    self.stopped_event.wait(timeout)

            def run(self):
                try:
                    super().run()
                finally:
                    s.record("emitter_end", (self.watch.path, self.inst))

        obs = api.BaseObserver(ScriptedEmitter, timeout=1.0)
        callno = [0]

        def watch_of(pidx):
            return api.ObservedWatch(prog["paths"][pidx], recursive=False)

        def do_call(form, who):
            callno[0] += 1
            cid = callno[0]
            s.record("call_inv", (cid, tuple(form), who))
            out = "ok"
            try:
                k = form[0]
                if k == "schedule":
                    obs.schedule(handlers[form[1]], prog["paths"][form[2]], recursive=False)
                elif k == "unschedule":
                    obs.unschedule(watch_of(form[1]))
                elif k == "add":
                    obs.add_handler_for_watch(handlers[form[1]], watch_of(form[2]))
                elif k == "remove":
                    obs.remove_handler_for_watch(handlers[form[1]], watch_of(form[2]))
                elif k == "unschedule_all":
                    obs.unschedule_all()
                elif k == "start":
                    obs.start()
                elif k == "stop":
                    obs.stop()
                elif k == "join":
                    obs.join()
            except KeyError:
                out = "KeyError"
            except OSError as e:
                out = "OSError"
            except RuntimeError as e:
                out = "RuntimeError:" + str(e)[:40]
            s.record("call_ret", (cid, out))
            return out

        class H(ev.FileSystemEventHandler):
            def __init__(self, hid, spec):
                self.hid = hid
                self.spec = spec
                self.n = 0

            def __hash__(self):
                return 1000 + self.hid

            def __eq__(self, other):
                return self is other

            def on_any_event(self, event):
                path, _, name = event.src_path.rpartition("/")
                s.record("cb", (self.hid, path, int(name[1:])))
                if int(name[1:]) == MARKER:
                    return  # the final-state probe must not trigger the handler's own re-entrant call
                self.n += 1
                re = self.spec.get("reentrant")
                if re and re["at"] == self.n:
                    do_call(re["call"], f"handler{self.hid}")

        handlers = [H(i, spec) for i, spec in enumerate(prog["handlers"])]
        obs2 = None
        if prog.get("second_observer"):
            # another observer of the same process, watching the same paths with an idle emitter and a handler of its
            # own (id = number of the program's handlers): nothing of the first observer's stream may show up there

            class Idle(api.EventEmitter):
                def queue_events(self, timeout):
                    self.stopped_event.wait(timeout)

            obs2 = api.BaseObserver(Idle, timeout=1.0)
            h2 = H(len(prog["handlers"]), {})
            for p in prog["paths"]:
                obs2.schedule(h2, p, recursive=False)
            obs2.start()
        for form in prog["initial"]:
            do_call(form, "main")
        do_call(["start"], "main")
        ts = [th.Thread(target=lambda seq=seq, i=i: [do_call(f, f"api{i}") for f in seq], name=f"api{i}") for i, seq in enumerate(prog["threads"])]
        for t in ts:
            t.start()
        for t in ts:
            t.join()
        tm.sleep(6.0)
        s.record("quiescent", None)
        # final-state probe: a marker event through every live emitter shows who is registered for its watch now
        live = sorted((e for e in obs.emitters if e.is_alive()), key=lambda e: e.watch.path)
        s.record("final_emitters", [e.watch.path for e in obs.emitters])
        for e in live:
            e.queue_event(ev.FileCreatedEvent(f"{e.watch.path}/e{MARKER}"))
        tm.sleep(3.0)
        s.record("final_probe_done", [e.watch.path for e in live])
        if on_ready:
            on_ready(s, obs, handlers, do_call)
        for form in prog.get("late", []):
            do_call(form, "main")
        do_call(["stop"], "main")
        do_call(["join"], "main")
        if obs2 is not None:
            obs2.stop()
            obs2.join()
        s.record("joined", [t.name for t in th.enumerate()])
        return obs

    return main


# ----------------------------------------------------------------------------- history


class History:
    def __init__(self, log, prog):
        self.calls = {}  # cid -> dict(form, who, inv, ret, out)
        self.queued = []  # (seq, path, eid, inst)
        self.cbs = []  # (seq, hid, path, eid)
        self.emitter_new = []  # (seq, path, inst)
        self.emitter_end = {}  # inst -> seq
        self.quiescent = None
        self.faults = []
        self.marker_cbs = []
        self.final_emitters = None
        self.final_probed = None
        for seq, tid, tag, p in log:
            if tag == "call_inv":
                self.calls[p[0]] = {"form": p[1], "who": p[2], "inv": seq, "ret": None, "out": None, "tid": tid}
            elif tag == "call_ret":
                self.calls[p[0]]["ret"] = seq
                self.calls[p[0]]["out"] = p[1]
            elif tag == "queued":
                self.queued.append((seq,) + tuple(p))
            elif tag == "cb":
                if p[2] == MARKER:
                    self.marker_cbs.append((seq,) + tuple(p))
                else:
                    self.cbs.append((seq,) + tuple(p))
            elif tag == "final_emitters":
                self.final_emitters = list(p)
            elif tag == "final_probe_done":
                self.final_probed = list(p)
            elif tag == "emitter_new":
                self.emitter_new.append((seq,) + tuple(p))
            elif tag == "emitter_end":
                self.emitter_end[p[1]] = seq
            elif tag == "quiescent":
                self.quiescent = seq
            elif tag == "emitter_fault":
                self.faults.append((seq,) + tuple(p))
        self.paths = prog["paths"]
        self.nh = len(prog["handlers"])
        INF = float("inf")
        for c in self.calls.values():
            if c["ret"] is None:
                c["ret"] = INF

    def registrations(self, hid, path):
        """(inv, ret) of successful or unfinished calls that register (hid, path)."""
        out = []
        for c in self.calls.values():
            f = c["form"]
            if c["out"] in ("ok", None) and ((f[0] == "schedule" and f[1] == hid and self.paths[f[2]] == path) or (f[0] == "add" and f[1] == hid and self.paths[f[2]] == path)):
                out.append((c["inv"], c["ret"]))
        return out

    def removals(self, hid, path):
        """(inv, ret) of calls that remove (hid, path) (successful ones; a KeyError removed nothing)."""
        out = []
        for c in self.calls.values():
            f = c["form"]
            if c["out"] not in ("ok", None):
                continue
            if (f[0] == "unschedule" and self.paths[f[1]] == path) or f[0] in ("unschedule_all", "stop") or (f[0] == "remove" and f[1] == hid and self.paths[f[2]] == path):
                out.append((c["inv"], c["ret"]))
        return out

    def callback_allowed(self, hid, path, s_c):
        regs = [g for g in self.registrations(hid, path) if g[0] < s_c]
        rems = self.removals(hid, path)
        for g in regs:
            if not any(r[0] > g[1] and r[1] < s_c for r in rems):
                return True
        return False

    def continuously_registered(self, hid, path, q, until):
        """registered by a call that returned before q and not touched by any removal until `until`."""
        rems = self.removals(hid, path)
        for g in self.registrations(hid, path):
            if g[1] < q and not any(r[1] > g[0] and r[0] < until for r in rems):
                return True
        return False

    def running_at(self, q):
        starts = [c for c in self.calls.values() if c["form"][0] == "start" and c["out"] == "ok" and c["ret"] < q]
        stops = [c for c in self.calls.values() if c["form"][0] == "stop" and c["inv"] < q]
        return bool(starts) and not stops


# ----------------------------------------------------------------------------- generators


def call_strategy(nh, npaths, kinds):
    def mk(k):
        if k == "schedule":
            return st.tuples(st.just("schedule"), st.integers(0, nh - 1), st.integers(0, npaths - 1))
        if k == "unschedule":
            return st.tuples(st.just("unschedule"), st.integers(0, npaths - 1))
        if k == "add":
            return st.tuples(st.just("add"), st.integers(0, nh - 1), st.integers(0, npaths - 1))
        if k == "remove":
            return st.tuples(st.just("remove"), st.integers(0, nh - 1), st.integers(0, npaths - 1))
        return st.just((k,))

    return st.one_of(*[mk(k) for k in kinds]).map(list)


@st.composite
def programs(draw, *, removal_heavy=False, max_threads=2, slow_passes=False):
    npaths = draw(st.integers(1, 3))
    nh = draw(st.integers(1, 3))
    paths = PATHS[:npaths]
    scripts = {}
    for p in paths:
        n = draw(st.integers(1, 5))
        seq = []
        nxt = 0
        for _ in range(n):
            r = draw(st.integers(0, 9))
            if seq and r < 2:
                seq.append(seq[-1])  # deliberate adjacent duplicate (may be coalesced)
            elif len(seq) >= 2 and r == 2:
                seq.append(seq[-2])  # equal to the one before the previous: must NOT be coalesced
            else:
                seq.append(nxt)
                nxt += 1
        scripts[p] = seq
    kinds = ["schedule", "unschedule", "add", "remove", "unschedule_all"]
    if removal_heavy:
        kinds = ["unschedule", "remove", "unschedule_all", "unschedule", "remove", "schedule", "add", "stop"]
    calls = call_strategy(nh, npaths, kinds)
    handlers = []
    for h in range(nh):
        spec = {}
        if draw(st.integers(0, 3 if not removal_heavy else 1)) == 0:
            spec["reentrant"] = {"at": draw(st.integers(1, 3)), "call": draw(calls)}
        handlers.append(spec)
    initial = [["schedule", draw(st.integers(0, nh - 1)), pi] for pi in range(npaths)]
    for _ in range(draw(st.integers(0, 2))):
        initial.append(["schedule", draw(st.integers(0, nh - 1)), draw(st.integers(0, npaths - 1))])
    threads = [draw(st.lists(calls, min_size=1, max_size=3)) for _ in range(draw(st.integers(0, max_threads)))]
    prog = {"paths": paths, "scripts": scripts, "handlers": handlers, "initial": initial, "threads": threads}
    if draw(st.integers(0, 3)) == 0:
        prog["second_observer"] = True
    if slow_passes and draw(st.integers(0, 2)) == 0:
        p = draw(st.sampled_from(paths))
        prog["slow"] = {p: {str(draw(st.integers(0, len(scripts[p]) - 1))): draw(st.sampled_from([1.5, 2.5, 4.0]))}}
    return prog


LINES = ("api", "bricks", "queue", "utils")


# ----------------------------------------------------------------------------- final state vs. linearizations


def final_state_violation(h, cap=30000):
    """The observer must end up in the state of SOME linearization of the API calls (a simple map from watches to
    handler sets): the set of emitters and the receivers of a marker event queued through every live emitter at
    quiescence are compared with the reference map after every order of the calls that respects real time and
    reproduces every call's outcome (ok / KeyError).  Returns a message or None; None also when the search is cut."""
    if h.final_emitters is None or h.quiescent is None:
        return None
    calls = [c for c in h.calls.values() if c["form"][0] in ("schedule", "unschedule", "add", "remove", "unschedule_all") and c["inv"] < h.quiescent]
    if any(c["out"] not in ("ok", "KeyError") for c in calls):
        return None
    calls.sort(key=lambda c: c["inv"])
    n = len(calls)
    if n > 12:
        return None
    before = [[j for j in range(n) if calls[j]["ret"] < calls[i]["inv"]] for i in range(n)]
    obs_emitters = sorted(set(h.final_emitters))
    if len(obs_emitters) != len(h.final_emitters):
        return f"two emitters for one watch at quiescence: {h.final_emitters}"
    obs_recv = {p: sorted({cb[1] for cb in h.marker_cbs if cb[2] == p}) for p in (h.final_probed or [])}
    budget = [cap]
    found = [False]

    def apply(state, c):
        em, hd = state
        f = c["form"]
        k = f[0]
        if k == "schedule":
            p = h.paths[f[2]]
            hd2 = dict(hd)
            hd2[p] = hd.get(p, frozenset()) | {f[1]}
            return (em | {p}, hd2), "ok"
        if k == "unschedule":
            p = h.paths[f[1]]
            if p not in em:
                return state, "KeyError"
            hd2 = {q: v for q, v in hd.items() if q != p}
            return (em - {p}, hd2), "ok"
        if k == "add":
            p = h.paths[f[2]]
            hd2 = dict(hd)
            hd2[p] = hd.get(p, frozenset()) | {f[1]}
            return (em, hd2), "ok"
        if k == "remove":
            p = h.paths[f[2]]
            if f[1] not in hd.get(p, frozenset()):
                return state, "KeyError"
            hd2 = dict(hd)
            hd2[p] = hd[p] - {f[1]}
            return (em, hd2), "ok"
        return (frozenset(), {}), "ok"  # unschedule_all

    def rec(done, state):
        if found[0] or budget[0] <= 0:
            return
        budget[0] -= 1
        if len(done) == n:
            em, hd = state
            if sorted(em) == obs_emitters and all(sorted(hd.get(p, ())) == obs_recv.get(p, []) for p in obs_recv):
                found[0] = True
            return
        for i in range(n):
            if i in done or any(j not in done for j in before[i]):
                continue
            st2, out = apply(state, calls[i])
            if out != calls[i]["out"]:
                continue
            rec(done | {i}, st2)

    rec(frozenset(), (frozenset(), {}))
    if found[0] or budget[0] <= 0:
        return None
    return (
        f"at quiescence the observer has emitters for {obs_emitters} and a marker event reached handlers {obs_recv}; no order of the API calls "
        f"{[(c['form'], c['who'], c['out'], c['inv'], c['ret']) for c in calls]} that respects their real-time order and outcomes leads a watch->handlers map to that state"
    )
