"""C06 - no API call order deadlocks; stop()+join() always ends every library thread.

Engine E2.  Programs: sequences over {start, schedule, unschedule, unschedule_all, stop} issued by 1-2 application
threads, optionally one call from inside a handler callback, always closed by stop(); join() on main.  Three
emitter kinds: scripted; the real InotifyEmitter/InotifyBuffer/Inotify over the simulated kernel (optionally with
a root that disappears mid-run); the real PollingEmitter over the virtual file system and the virtual clock.
Oracle: no deadlock state, every call returns or raises, afterwards no library thread is alive.
"""

from __future__ import annotations

import functools
import itertools

from hypothesis import strategies as st

from vlib import runner, simkernel as sk, vfs
from vlib.dsched import core, explore, harness, loader
from vlib.runner import Stats, Violation

ID = "C06"
LEVEL = "exploration"
DESIGN_REF = "DESIGN.md §3.2, §4 C06"
RULE = (
    "cases = (emitter kind in {scripted, inotify-over-simulated-kernel, polling-over-VFS}, call sequences of 1-2 "
    "application threads over {start, schedule p0|p1, unschedule p0, unschedule_all, stop, vanish = the root of p0 "
    "disappears}, optional re-entrant call from a callback, optional root disappearing from a separate thread, iteration "
    "order of the observer's emitter set; schedule).  Exhaustive: every single-thread sequence of length <= 3 (quick) "
    "/ 4 (thorough) x 3 emitter kinds under the default schedule, and DFS with <= k preemptions (k=1/2) over 16 fixed "
    "programs; random: Hypothesis programs x random schedules; flood: a scripted emitter reporting 3000 (thorough 20000) "
    "changes in one pass while a callback or another thread calls unschedule_all / unschedule / stop / schedule.  "
    "non-trivial = >= 2 threads concurrently "
    "inside API calls or a re-entrant call, and >= 1 preemption taken; distinct = digest of (program, schedule decisions)"
)
ASSUMPTIONS = [
    "substitute threading/time/queue primitives (vlib/dsched), simulated inotify kernel (vlib/simkernel.py) and virtual file system (vlib/vfs.py); deadlock = no runnable thread, no timed waiter, some thread unfinished",
    "a call may raise (RuntimeError for a second start, KeyError for an unknown watch, OSError for a vanished root) - that is an outcome, not a violation; blocking forever or leaving a library thread alive after stop()+join() is",
    "after main's stop()+join() the system is run to quiescence for up to 50 virtual seconds before thread liveness is judged",
]
PATHS = ["/w", "/w2"]
LINES = ("api", "utils", "inotify_buffer", "inotify", "delayed_queue", "polling")


def make_main(prog):
    W = loader.load()
    sk.install(W)
    th, tm = core.fake_threading, core.fake_time
    api, ev = W.api, W.events

    def main(s):
        kind = prog["emitter"]
        k = sk.new_kernel()
        for p in PATHS:
            k.fs_makedirs(p.encode() + b"/sub")
        k.fs_makedirs(b"/elsewhere")
        v = vfs.VFS({"": ("d", 1, 1, 0, 0), "a": ("f", 2, 1, 0, 0)}, root="/w")
        v2 = vfs.VFS({"": ("d", 1, 1, 0, 0)}, root="/w2")

        def stat(p):
            return (v if p == "/w" or p.startswith("/w/") else v2).stat(p)

        def listdir(p):
            return (v if p == "/w" or p.startswith("/w/") else v2).listdir(p)

        if kind == "scripted":

            class Em(api.EventEmitter):
                def on_thread_start(self):
                    self.n = 0

                def queue_events(self, timeout):
                    if self.n < 2:
                        self.n += 1
                        self.queue_event(ev.FileCreatedEvent(f"{self.watch.path}/e{self.n}"))
                    elif self.n == 2 and prog.get("flood"):
                        # one pass that reports a great many changes (a big directory copied in), far more than the
                        # handlers have taken when the next API call arrives
                        self.n += 1
                        for j in range(prog["flood"]):
                            self.queue_event(ev.FileCreatedEvent(f"{self.watch.path}/flood{j}"))
                    else:
                        self.stopped_event.wait(timeout)

            cls = Em
        elif kind == "inotify":
            # the real emitter; the hash only fixes the order in which the observer's emitter SET is iterated (start(),
            # _clear_emitters()): part of the program instead of an accident of object addresses
            order = {PATHS[0]: 2, PATHS[1]: 1} if prog.get("good_first") else {PATHS[0]: 1, PATHS[1]: 2}

            class Em(W.inotify.InotifyEmitter):
                def __hash__(self):
                    return order.get(self.watch.path, 3)

                def __eq__(self, other):
                    return self is other

            cls = Em
        else:
            cls = functools.partial(W.polling.PollingEmitter, stat=stat, listdir=listdir)
        obs = api.BaseObserver(cls, timeout=1.0)
        callno = itertools.count(1)

        def do_call(form, who):
            cid = next(callno)
            s.record("call_inv", (cid, tuple(form), who))
            out = "ok"
            try:
                kk = form[0]
                if kk == "schedule":
                    obs.schedule(handler, PATHS[form[1]], recursive=True)
                elif kk == "unschedule":
                    obs.unschedule(api.ObservedWatch(PATHS[form[1]], recursive=True))
                elif kk == "unschedule_all":
                    obs.unschedule_all()
                elif kk == "start":
                    obs.start()
                elif kk == "vanish":
                    vanish()
                elif kk == "stop":
                    obs.stop()
                elif kk == "join":
                    obs.join()
            except (KeyError, OSError, RuntimeError) as e:
                out = type(e).__name__
            s.record("call_ret", (cid, out))

        class H(ev.FileSystemEventHandler):
            n = 0

            def __hash__(self):
                return 77

            def on_any_event(self, event):
                s.record("cb", str(event.src_path))
                H.n += 1
                if prog.get("reentrant") and H.n == 1:
                    do_call(prog["reentrant"], "handler")

        handler = H()

        def vanish():
            # the watched root /w disappears, as a step of the calling thread's own sequence
            if kind == "inotify":
                if k._lookup(b"/w") is not None:  # a second vanish is a no-op
                    k.op_rmtree_root(b"/w")
            elif kind == "polling":
                v.tree.clear()

        def fs_activity():
            # something for the emitters to report (and, optionally, the root vanishes); the delays are part of the
            # program so that the activity can also race with the API calls and with the final stop()
            d1 = prog.get("fs_delay", 0.5)
            d2 = prog.get("vanish_delay", 0.5)
            if d1:
                tm.sleep(d1)
            if kind == "inotify":
                try:
                    k.op_create(b"/w/f1")
                except OSError:
                    pass
                if prog.get("move_out"):
                    # a watched sub-directory leaves the tree: its IN_MOVED_FROM stays unmatched, 0.5 s later the
                    # emitter drops the watches of what left
                    try:
                        k.op_rename(b"/w/sub", b"/elsewhere/sub")
                    except (OSError, AttributeError, KeyError):
                        pass
                if prog.get("root_vanishes"):
                    if d2:
                        tm.sleep(d2)
                    vanish()
            elif kind == "polling":
                v.tree["b"] = ("f", 3, 1, 0, 0)
                if prog.get("root_vanishes"):
                    tm.sleep(d2 + 1.0)
                    v.tree.clear()

        ts = [th.Thread(target=lambda seq=seq, i=i: [do_call(f, f"app{i}") for f in seq], name=f"app{i}") for i, seq in enumerate(prog["threads"][1:], 1)]
        fs = th.Thread(target=fs_activity, name="fsactivity")
        for t in ts:
            t.start()
        fs.start()
        for f in prog["threads"][0]:
            do_call(f, "app0")
        for t in ts:
            t.join()
        settle = prog.get("settle", 3.0)
        if settle:
            fs.join()
            tm.sleep(settle)
        do_call(["stop"], "main")
        do_call(["join"], "main")
        fs.join()
        return k

    return main


def check(prog, r, s):
    v = harness.basic_verdict(r)
    if v:
        sig, msg = v
        raise Violation(f"{msg} (program {prog})", sig)
    calls = {}
    open_by_thread = {}
    concurrent = False
    for seq, tid, tag, p in s.log:
        if tag == "call_inv":
            calls[p[0]] = [p[1], p[2], seq, None, None]
            if any(t != tid for t in open_by_thread):
                concurrent = True
            open_by_thread[tid] = p[0]
        elif tag == "call_ret":
            calls[p[0]][3] = seq
            calls[p[0]][4] = p[1]
            open_by_thread.pop(tid, None)
    for cid, c in calls.items():
        if c[3] is None:
            raise Violation(f"call {c[0]} by {c[1]} never returned (program {prog})", "call-never-returned")
    cl = []
    if concurrent:
        cl.append("concurrent-api-calls")
    if prog.get("reentrant"):
        cl.append("reentrant-call" + (":happened" if any(c[1] == "handler" for c in calls.values()) else ":not-reached"))
    if prog.get("root_vanishes"):
        cl.append("root-vanishes")
    if prog.get("move_out") and prog["emitter"] == "inotify":
        cl.append("directory-moved-out")
    if r.preemptions:
        cl.append(f"preemptions={min(r.preemptions, 3)}")
    cl.append("emitter:" + prog["emitter"])
    outs = sorted({c[4] for c in calls.values() if c[4] != "ok"})
    cl += ["raised:" + o for o in outs]
    nt = (concurrent or any(c[1] == "handler" for c in calls.values())) and r.preemptions > 0
    return nt, cl


ALPHA = [["start"], ["schedule", 0], ["schedule", 1], ["unschedule", 0], ["unschedule_all"], ["stop"], ["vanish"]]


def P(emitter, threads, reentrant=None, root_vanishes=False, fs_delay=0.5, vanish_delay=0.5, settle=3.0, good_first=False, move_out=False):
    return {"emitter": emitter, "threads": threads, "reentrant": reentrant, "root_vanishes": root_vanishes, "fs_delay": fs_delay, "vanish_delay": vanish_delay, "settle": settle, "good_first": good_first, "move_out": move_out}


FIXED = [
    P("scripted", [[["schedule", 0], ["start"]], [["stop"]]]),
    P("inotify", [[["schedule", 0], ["start"]], [["schedule", 1], ["stop"]]]),
    P("inotify", [[["schedule", 0], ["start"], ["unschedule", 0]], [["schedule", 0]]], reentrant=["unschedule_all"]),
    P("polling", [[["schedule", 0], ["start"]], [["unschedule_all"], ["schedule", 1]]]),
    P("inotify", [[["schedule", 0], ["start"]], []], reentrant=["stop"], root_vanishes=True),
    P("scripted", [[["start"], ["schedule", 0]], [["stop"], ["stop"]]], reentrant=["schedule", 1]),
    P("polling", [[["schedule", 0], ["start"]], [["stop"]]], root_vanishes=True),
    P("inotify", [[["start"], ["schedule", 0], ["stop"]], [["schedule", 1], ["unschedule", 0]]]),
    # the root disappears while stop() is under way (nothing settles in between)
    P("inotify", [[["schedule", 0], ["start"]]], root_vanishes=True, fs_delay=0.0, vanish_delay=0.0, settle=0.0),
    P("inotify", [[["schedule", 0], ["start"]], [["unschedule", 0]]], root_vanishes=True, fs_delay=0.0, vanish_delay=0.0, settle=0.0),
    # a root that is gone before start(): start() raises after it started the other watch's emitter (or before, by the
    # order of the emitter set), the application retries, schedules again, stops
    P("inotify", [[["schedule", 0], ["schedule", 1], ["vanish"], ["start"], ["start"]]], good_first=True),
    P("inotify", [[["schedule", 0], ["schedule", 1], ["vanish"], ["start"], ["start"]]], good_first=False),
    P("inotify", [[["schedule", 0], ["schedule", 1], ["vanish"], ["start"], ["unschedule", 0], ["start"]], [["start"]]], good_first=True),
    P("polling", [[["schedule", 0], ["schedule", 1], ["vanish"], ["start"], ["start"]]]),
    # a watched sub-directory is moved out of the tree; stop() after, and around, the moment its watches are dropped
    P("inotify", [[["schedule", 0], ["start"]]], move_out=True, settle=3.0),
    P("inotify", [[["schedule", 0], ["start"]], [["unschedule", 0]]], move_out=True, fs_delay=0.0, settle=0.5),
]


@st.composite
def programs(draw):
    call = st.sampled_from(ALPHA)
    t0 = draw(st.lists(call, min_size=1, max_size=4))
    t1 = draw(st.lists(call, min_size=0, max_size=3))
    return P(
        draw(st.sampled_from(["scripted", "inotify", "inotify", "polling"])),
        [t0, t1],
        reentrant=draw(st.one_of(st.none(), call)),
        root_vanishes=draw(st.sampled_from([False, False, True])),
        fs_delay=draw(st.sampled_from([0.0, 0.5])),
        vanish_delay=draw(st.sampled_from([0.0, 0.5])),
        settle=draw(st.sampled_from([0.0, 3.0, 3.0])),
        good_first=draw(st.booleans()),
        move_out=draw(st.sampled_from([False, False, True])),
    )


NSH = 16
MAXRUNS = {"quick": 1200, "thorough": 40000}


FLOOD = {"quick": 3000, "thorough": 20000}


def flood_programs(tier):
    n = FLOOD[tier]
    for call in (["unschedule_all"], ["unschedule", 0], ["stop"], ["schedule", 1]):
        p = P("scripted", [[["schedule", 0], ["start"]]], reentrant=call, settle=3.0)
        p["flood"] = n
        yield p
    p = P("scripted", [[["schedule", 0], ["start"]], [["unschedule_all"]]], settle=3.0)
    p["flood"] = n
    yield p


def shards(tier, seed):
    return [(k, tier, seed, i) for k in ("seq", "dfs", "rand") for i in range(NSH)] + [("flood", tier, seed, i) for i in range(5)]


def run_shard(spec):
    kind, tier, seed, i = spec
    st_ = Stats()
    if kind == "flood":
        harness.ensure_lines(())
        prog = list(flood_programs(tier))[i]
        r, s = harness.execute(make_main(prog), prefix=[], max_steps=40_000_000)
        try:
            nt, cl = check(prog, r, s)
            st_.case(["flood", prog], True, cl + ["flood", f"flood>={prog['flood']}"], sample={"program": prog})
        except Violation as v:
            st_.fail({"kind": "flood", "program": prog}, v.message, v.signature)
        return st_
    if kind == "seq":
        harness.ensure_lines(())
        L = 3 if tier == "quick" else 4
        st_.exhaustive = True
        n = 0
        k = -1
        for ln in range(0, L + 1):
            for seq in itertools.product(ALPHA, repeat=ln):
                for em in ("scripted", "inotify", "polling"):
                    k += 1
                    if k % NSH != i:
                        continue
                    prog = P(em, [[list(c) for c in seq]])
                    n += 1
                    r, s = harness.execute(make_main(prog), prefix=[])
                    try:
                        nt, cl = check(prog, r, s)
                    except Violation as v:
                        st_.fail({"kind": "prefix", "program": prog, "prefix": []}, v.message, v.signature)
                        st_.exhaustive = False
                        continue
                    st_.case(["seq", prog], nt, cl + ["single-thread-sequence"], sample={"program": prog} if n % 300 == 1 else None)
        st_.extra["single_thread_sequences"] = n
        return st_
    harness.ensure_lines(LINES)
    if kind == "dfs":
        bound = 1 if tier == "quick" else 2
        st_.exhaustive = True
        total = 0
        for pi, prog in enumerate(FIXED):
            main = make_main(prog)

            def rw(prefix, prog=prog, main=main, pi=pi):
                r, s = harness.execute(main, prefix=prefix)
                chosen = [d[2] for d in r.decisions]
                try:
                    nt, cl = check(prog, r, s)
                except Violation as v:
                    v.prefix = chosen
                    raise
                st_.case(["dfs", pi, chosen], nt, cl + [f"program{pi}"], sample={"program": prog, "prefix": chosen} if st_.evaluations % 300 == 0 else None)
                return r.decisions

            try:
                runs, done = explore.dfs(rw, bound, shard=(i, NSH), max_runs=MAXRUNS[tier])
            except Violation as v:
                st_.fail({"kind": "prefix", "program": prog, "prefix": getattr(v, "prefix", None)}, v.message, v.signature)
                st_.exhaustive = False
                continue
            total += runs
            st_.exhaustive = st_.exhaustive and done
        st_.extra["dfs_schedules"] = total
        st_.notes.append(f"DFS preemption bound {bound}")
        return st_
    count = [0]

    def body(case):
        prog, sched = case
        count[0] += 1
        r, s = harness.execute_random(make_main(prog), sched)
        nt, cl = check(prog, r, s)
        st_.case(["rand", prog, [d[2] for d in r.decisions]], nt, cl, sample={"program": prog, "schedule": sched} if count[0] % 150 == 1 else None)

    res = runner.hyp_search(st.tuples(programs(), harness.SCHEDULES), body, seed=runner.derive_seed(seed, ID, i), max_examples=200 if tier == "quick" else 3000)
    if res is not None:
        (prog, sched), v = res
        st_.fail({"kind": "random", "program": prog, "schedule": sched}, v.message, v.signature)
    st_.extra["random_executions"] = count[0]
    return st_


def replay(case):
    prog = case["program"]
    try:
        if case["kind"] == "flood":
            harness.ensure_lines(())
            r, s = harness.execute(make_main(prog), prefix=[], max_steps=40_000_000)
            check(prog, r, s)
            return []
        if case["kind"] == "prefix":
            harness.ensure_lines(LINES if case["prefix"] else ())
            r, s = harness.execute(make_main(prog), prefix=case["prefix"] or [])
        else:
            harness.ensure_lines(LINES)
            fr, free = case["schedule"]
            r, s = harness.execute_random(make_main(prog), ([tuple(x) for x in fr], free))
        check(prog, r, s)
    except Violation as v:
        return [runner.Failure(case, v.message, v.signature)]
    return []
