"""C03 - every delivered event is justified and correctly typed; single operations meet their contract.

(a) soundness over histories: C01's generator plus nested creation bursts and operations on entries that
    have left the tree, normal and full emitter; every event of every drain window must be justified by the
    window's operations (vlib.justify.unjustified).
(b) completeness: every single valid op in every tree state reachable in <= 2 ops of a small universe x
    recursive x full: required events (the statement's list) must all be delivered, the structural events
    (created/deleted/moved) must be exactly the required ones, everything else must be justified by this op.
"""

from __future__ import annotations

import os

from hypothesis import strategies as st

from props import c01
from vlib import fsops, justify, runner
from vlib.runner import Stats, Violation

ID = "C03"
LEVEL = "exploration"
DESIGN_REF = "DESIGN.md §4 C03"
RULE = (
    "(a) Hypothesis histories as in C01 plus makedirs bursts and ext ops on entries that left the tree, x recursive x "
    "normal/full emitter x str/bytes; every event of every drain window is judged.  (b) exhaustive cells: every tree "
    "state reachable in <= 2 creating ops over names {a,ab} (prefix related), depth 2 (plus an out/ slot holding a file and a tree) x every "
    "single valid op x recursive/non-recursive x normal/full.  non-trivial: (a) window with a directory op or an ext op; "
    "(b) op acts on a directory with >= 1 descendant or crosses the tree boundary; distinct = digest of the case"
)
ASSUMPTIONS = c01.ASSUMPTIONS + [
    "justification rule of DESIGN.md §4 C03 (vlib/justify.py); DirModified is accepted for a directory that was chmod'ed or whose direct child was source, destination or target of an op in the window",
    "a completeness cell whose only deviation is deleted+created instead of one moved event is re-executed (pairing is time based); it is reported only if it deviates in all 3 executions",
]
WALL_CAP = c01.WALL_CAP


def collapse(evs):
    out = []
    for e in evs:
        if not out or out[-1] != e:
            out.append(e)
    return out


# ----------------------------------------------------------------------------- (a) soundness


def run_history(case):
    cfg = case["cfg"]
    s = fsops.Session(cfg, case["init"])
    try:
        rec = bool(cfg.get("recursive", True))
        full = bool(cfg.get("full"))
        log = []
        judged = 0
        for bi, burst in enumerate(case["bursts"]):
            before = s.model.copy()
            s.run_burst(burst)
            evs, ok = s.drain()
            errs = s.thread_errors()
            if errs:
                raise Violation(f"library thread died: {errs[0][:3]} after burst {bi} {burst}", "thread-died:" + errs[0][2].split("(")[0])
            if not ok:
                raise runner.Inconclusive(f"sentinel not answered after burst {bi}: {burst}")
            facts = justify.window_facts(before, burst)
            log.append([repr(e) for e in evs])
            for e in evs:
                judged += 1
                why = justify.unjustified(e, s.norm, facts, rec, full)
                if why:
                    cls = type(e).__name__
                    raise Violation(
                        f"after burst {bi} {burst}: {e!r} is not justified: {why}. window events: {log[-1][:12]}",
                        "unjustified:" + cls + (":synthetic" if e.is_synthetic else "") + ":" + why.split(" ")[0],
                        {"log": log},
                    )
        return {"judged": judged}
    finally:
        s.close()


def history_classes(case):
    nt, cl = c01.is_nontrivial(case)
    ext = any(op[0].startswith("ext_") for b in case["bursts"] for op in b)
    if ext:
        cl.append("ext-op")
    dirop = any(c in cl for c in ("burst-with-dir-op", "dir-op-on-nonempty-dir", "move-in-tree")) or any(
        op[0] in ("mkdir", "makedirs", "rmdir", "rmtree") for b in case["bursts"] for op in b
    )
    cfg = case["cfg"]
    cl += ["recursive" if cfg["recursive"] else "non-recursive", "full" if cfg.get("full") else "normal"]
    return dirop or ext, cl


@st.composite
def hist_cases(draw, tier):
    cfg = {
        "recursive": draw(st.sampled_from([True, True, False])),
        "bytes": draw(st.sampled_from([False, False, True])),
        "full": draw(st.booleans()),
        "bufsize": draw(st.sampled_from(c01.BUFSIZES)),
    }
    opts = {
        "max_bursts": 4 if tier == "quick" else 7,
        "max_ops": 5,
        "makedirs": True,
        "ext": True,
        "depth": draw(st.sampled_from([3, 3, 4])),
        "weights": {"ext_create": 2, "ext_mkdir": 1, "ext_write": 2, "ext_unlink": 1, "ext_rmtree": 1, "ext_rename": 1, "move_out": 5},
    }
    h = draw(fsops.histories(opts))
    return {"cfg": cfg, "init": h["init"], "bursts": h["bursts"]}


# ----------------------------------------------------------------------------- (b) completeness


def states():
    """Init op lists reaching every tree state within <= 2 creating ops over {a,b}, depth 2, plus fixed out/ slots."""
    opts = {"names": ["a", "ab"], "depth": 2, "boundary": False}
    out = [[]]
    seen = {()}
    frontier = [[]]
    for _ in range(2):
        nxt = []
        for init in frontier:
            m = fsops.model_after_init(init)
            for op in fsops.candidate_ops(m, opts):
                if op[0] not in ("create", "mkdir"):
                    continue
                m2 = m.copy()
                fsops.apply_op(m2, op)
                key = tuple(sorted((p, v[0]) for p, v in m2.tree.items()))
                if key in seen:
                    continue
                seen.add(key)
                nxt.append(init + [list(op)])
        out += nxt
        frontier = nxt
    # a richer state so that directories with descendants occur
    out.append([["mkdir", "a"], ["mkdir", "a/a"], ["create", "a/ab"], ["create", "ab"]])
    # sibling directories whose names are prefix related, both with content
    out.append([["mkdir", "a"], ["create", "a/a"], ["mkdir", "ab"], ["create", "ab/a"]])
    slots = [["prebuild", "o1", [], "f"], ["prebuild", "o2", [["a", "f"], ["ab", "d"]], "d"]]
    return [init + slots for init in out]


def cells():
    opts = {"names": ["a", "ab"], "depth": 2}
    for init in states():
        m = fsops.model_after_init(init)
        for op in fsops.candidate_ops(m, opts):
            if op[0] == "move_out":
                op = ("move_out", op[1], "x1")
            if op[0] == "read":
                continue
            for rec in (True, False):
                for full in (False, True):
                    yield {"cfg": {"recursive": rec, "full": full}, "init": init, "op": list(op)}


def run_cell(cell):
    from watchdog import events as ev

    cfg, op = cell["cfg"], tuple(cell["op"])
    rec, full = bool(cfg["recursive"]), bool(cfg.get("full"))
    deviation = None
    for attempt in range(3):
        s = fsops.Session(cfg, cell["init"])
        try:
            before = s.model.copy()

            def mk(cls, src, dest=None, synthetic=False):
                g = s.given if isinstance(s.given, str) else os.fsdecode(s.given)
                P = lambda r: "" if r == justify.EMPTY else (os.path.join(g, r) if r else g)  # noqa: E731
                c = getattr(ev, cls)
                if dest is None:
                    return c(P(src), is_synthetic=synthetic)
                return c(P(src), P(dest), is_synthetic=synthetic)

            req = justify.required_events(before, op, rec, full, mk)
            s.run_burst([list(op)])
            evs, ok = s.drain()
            errs = s.thread_errors()
            if errs:
                raise Violation(f"library thread died: {errs[0][:3]} on {op}", "thread-died:" + errs[0][2].split("(")[0])
            if not ok:
                raise runner.Inconclusive(f"sentinel not answered after {op}")
            facts = justify.window_facts(before.copy(), [list(op)])
            obs = collapse(evs)
            pool = list(obs)
            missing = []
            for r in req:
                if r in pool:
                    pool.remove(r)
                else:
                    missing.append(r)
            structural = (ev.FileCreatedEvent, ev.DirCreatedEvent, ev.FileDeletedEvent, ev.DirDeletedEvent, ev.FileSystemMovedEvent)
            extra_struct = [e for e in pool if isinstance(e, structural)]
            unjust = [(e, why) for e in obs for why in [justify.unjustified(e, s.norm, facts, rec, full)] if why]
            if not missing and not extra_struct and not unjust:
                return {"required": len(req), "observed": len(obs)}
            desc = f"op {list(op)} in state {sorted(before.tree)} recursive={rec} full={full}: "
            if unjust:
                deviation = Violation(desc + f"unjustified {unjust[0][0]!r}: {unjust[0][1]}; observed {obs}", "contract:unjustified:" + type(unjust[0][0]).__name__)
            elif missing:
                deviation = Violation(desc + f"required but not delivered: {missing}; observed {obs}", "contract:missing:" + type(missing[0]).__name__ + (":synthetic" if missing[0].is_synthetic else ""))
            else:
                deviation = Violation(desc + f"structural events outside the contract: {extra_struct}; observed {obs}", "contract:extra:" + type(extra_struct[0]).__name__)
            # only the time-based degradation of a move is re-executed
            moved_missing = any(isinstance(r, ev.FileSystemMovedEvent) and not r.is_synthetic for r in missing)
            if not (moved_missing and op[0] in ("rename", "replace")):
                raise deviation
        finally:
            s.close()
    raise deviation


def cell_nontrivial(cell):
    m = fsops.model_after_init(cell["init"])
    op = cell["op"]
    k = op[0]
    nt = k in ("move_out", "move_in")
    if k in ("rename", "replace", "rmtree", "move_out") and m.kind(op[1]) == "d" and m.children(op[1]):
        nt = True
    if k == "move_in" and len(m.out[op[1]]) > 1:
        nt = True
    return nt, ["cell:" + k, "recursive" if cell["cfg"]["recursive"] else "non-recursive", "full" if cell["cfg"].get("full") else "normal"]


# ----------------------------------------------------------------------------- shards

NSH = 16


def shards(tier, seed):
    return [(k, tier, seed, i) for i in range(NSH) for k in ("hyp", "cells")]


def run_shard(spec):
    kind, tier, seed, i = spec
    st_ = Stats()
    if kind == "cells":
        st_.exhaustive = True
        n = 0
        for k, cell in enumerate(cells()):
            if k % NSH != i:
                continue
            if tier == "quick" and (k // NSH) % 3 != seed % 3:
                st_.exhaustive = False
                continue
            n += 1
            try:
                run_cell(cell)
            except Violation as v:
                st_.fail(dict(cell, kind="cell"), v.message, v.signature)
                st_.exhaustive = False
                continue
            nt, cl = cell_nontrivial(cell)
            st_.case(cell, nt, cl, sample=cell if n % 60 == 1 else None)
        st_.extra["contract_cells"] = n
        return st_
    count = [0]
    judged = [0]

    def body(case):
        count[0] += 1
        info = run_history(case)
        judged[0] += info["judged"]
        nt, cl = history_classes(case)
        st_.case([case["cfg"], fsops.normalized_history(case)], nt, cl, sample=case if count[0] % 40 == 1 else None)

    res = runner.hyp_search(hist_cases(tier), body, seed=runner.derive_seed(seed, ID, i), max_examples=120 if tier == "quick" else 2000, shrink=False)
    if res is not None:
        case, v = res
        case2, v2 = minimize(case, v)
        st_.fail(dict(case2, kind="history"), v2.message, v2.signature, v2.extra)
    st_.extra["events_judged"] = judged[0]
    return st_


def minimize(case, v, budget=30):
    saved = c01.run_case
    c01.run_case = lambda c, probe=None: run_history(c)
    try:
        return c01.minimize(case, v, budget)
    finally:
        c01.run_case = saved


def replay(case):
    for _ in range(3):
        try:
            if case.get("kind") == "cell":
                run_cell(case)
            else:
                run_history(case)
        except Violation as v:
            return [runner.Failure(case, v.message, v.signature, v.extra)]
    return []
