"""C14 - synthetic events for a moved / newly arrived directory name every descendant once and correctly.

Real directory trees are built in a scratch directory from a name universe chosen to repeat the
destination's own path (its basename, and the components of its full path as nested directories);
generate_sub_moved_events / generate_sub_created_events are compared with an independent scandir
enumeration.  A second sub-campaign drives the real inotify observer on such trees under a relative
root and probes every directory after a rename (the watch-path map rewrite in inotify_c).
"""

from __future__ import annotations

import itertools
import os
import shutil
import tempfile

from hypothesis import strategies as st

from vlib import runner
from vlib.runner import Stats, Violation

ID = "C14"
LEVEL = "exploration"
DESIGN_REF = "DESIGN.md §4 C14"
RULE = (
    "cases = (tree of descendants, src dir path, dest dir path, absolute|relative spelling, str|bytes); trees are "
    "really created on disk under dest; exhaustive: every tree with <= 4 entries, depth <= 3 over names {a,b} "
    "(= the source and destination basenames) for relative a->b, plus nested spellings; Hypothesis: trees to depth 5 "
    "over a universe containing the components of the absolute destination path.  non-trivial = some descendant's "
    "path contains the destination directory path string a second time, or the tree has depth >= 2; plus histories on the "
    "real inotify observer under a relative root 'a' with names {a, b} (>= 2 renames = non-trivial), judged by C03's "
    "justification and C02's probes; distinct = digest of (tree, spelling) / of the history"
)
ASSUMPTIONS = [
    "no symlinks in generated trees; src and dest are normalized paths without trailing separator, src non-empty",
    "descendant enumeration by os.scandir/lstat written here is the oracle",
]


def scratch_root():
    base = "/dev/shm" if os.path.isdir("/dev/shm") and os.access("/dev/shm", os.W_OK) else tempfile.gettempdir()
    return tempfile.mkdtemp(prefix="vf", dir=base)


def build(base, tree):
    """tree: list of (relpath, kind) relative to base (parents first)."""
    for rel, kind in sorted(tree, key=lambda e: (e[0].count("/"), e[0])):
        p = os.path.join(base, rel)
        if kind == "d":
            os.makedirs(p, exist_ok=True)
        else:
            os.makedirs(os.path.dirname(p), exist_ok=True)
            with open(p, "w"):
                pass


def enumerate_descendants(top):
    """[(rel, is_dir)] by scandir; independent of os.walk."""
    out = []

    def rec(d, rel):
        with os.scandir(d) as it:
            for e in sorted(it, key=lambda e: e.name):
                r = e.name if not rel else rel + "/" + e.name
                isd = e.is_dir(follow_symlinks=False)
                out.append((r, isd))
                if isd:
                    rec(e.path, r)

    rec(top, "")
    return out


def check_events(tree, src, dest, as_bytes, cwd):
    """tree already on disk below dest (relative spellings resolved against cwd)."""
    from watchdog import events as ev

    old = os.getcwd()
    os.chdir(cwd)
    try:
        desc = enumerate_descendants(dest)
        conv = os.fsencode if as_bytes else (lambda x: x)
        s, d = conv(src), conv(dest)
        sep = conv("/")
        moved = list(ev.generate_sub_moved_events(s, d))
        created = list(ev.generate_sub_created_events(d))
    finally:
        os.chdir(old)
    exp_m = [((ev.DirMovedEvent if isd else ev.FileMovedEvent)(s + sep + conv(r), d + sep + conv(r), is_synthetic=True)) for r, isd in desc]
    exp_c = [((ev.DirCreatedEvent if isd else ev.FileCreatedEvent)(d + sep + conv(r), is_synthetic=True)) for r, isd in desc]
    for name, got, exp in (("generate_sub_moved_events", moved, exp_m), ("generate_sub_created_events", created, exp_c)):
        call = f"{name}({s!r}, {d!r})" if name.endswith("moved_events") else f"{name}({d!r})"
        for g in got:
            if not g.is_synthetic:
                raise Violation(f"{call}: {g!r} is not marked synthetic", "not-synthetic")
            if type(g.src_path) is not type(s) or (g.dest_path != "" and type(g.dest_path) is not type(s)):
                raise Violation(f"{call}: {g!r} path type differs from the argument type", "path-type")
        missing = [e for e in exp if e not in got]
        extra = [g for g in got if g not in exp]
        if missing or extra:
            wrong_src = [g for g in got if g not in exp and any(g.dest_path == e.dest_path and type(g) is type(e) for e in exp)] if name.endswith("moved_events") else []
            sig = "wrong-source-path" if wrong_src else ("missing-or-extra" if not extra or not missing else "wrong-event")
            raise Violation(f"{call} over {[r for r, _ in desc]}: missing {missing}, unexpected {extra}", sig)
        if len(got) != len(exp):
            raise Violation(f"{call}: {len(got)} events for {len(exp)} descendants (duplicates): {got}", "duplicate")
        # parents before children
        key = (lambda e: e.dest_path) if name.endswith("moved_events") else (lambda e: e.src_path)
        pos = {key(e): i for i, e in enumerate(got)}
        for e in got:
            par = key(e).rsplit(sep, 1)[0]
            if par in pos and pos[par] > pos[key(e)]:
                raise Violation(f"{call}: child {key(e)!r} before its parent", "child-before-parent")
    return desc


def run_pure_case(case):
    """case: {'tree': [[rel, kind]...], 'src': str, 'dest': str, 'abs': bool, 'bytes': bool}
    src/dest are relative to the scratch cwd; with abs they are made absolute."""
    top = scratch_root()
    try:
        cwd = top
        if case.get("abs_name"):
            # absolute spelling with a chosen short scratch name so that path components can recur
            cwd = os.path.join(top, *case["abs_name"])
            os.makedirs(cwd)
        dest_abs = os.path.join(cwd, case["dest"])
        os.makedirs(dest_abs)
        tree = [(r.replace("<ABS>", os.path.join(cwd, case["dest"]).strip("/")), k) for r, k in case["tree"]]
        build(dest_abs, tree)
        if case["abs"]:
            src, dest = os.path.join(cwd, case["src"]), dest_abs
        else:
            src, dest = case["src"], case["dest"]
        desc = check_events(tree, src, dest, case["bytes"], cwd)
        depth = max([r.count("/") + 1 for r, _ in desc] + [0])
        dstr = dest
        repeats = any((dest + "/" + r).count(dstr) >= 2 for r, _ in desc)
        return {"nontrivial": repeats or depth >= 2, "classes": [f"depth={depth}"] + (["dest-string-repeats"] if repeats else []) + (["abs"] if case["abs"] else ["rel"]) + (["bytes"] if case["bytes"] else ["str"])}
    finally:
        shutil.rmtree(top, ignore_errors=True)


# ----------------------------------------------------------------------------- generators


def small_trees(names, depth, max_entries):
    from props.c09 import shapes

    return [sorted(s.items()) for s in shapes(names, depth, max_entries) if s]


SPELLINGS = [("a", "b"), ("a", "a/b"), ("b/a", "b"), ("d/a", "d/b")]


def exhaustive_cases(tier):
    trees = small_trees(("a", "b"), 3, 3 if tier == "quick" else 4)
    for tree in trees:
        for src, dest in SPELLINGS if tier != "quick" else SPELLINGS[:2]:
            if dest.startswith(src + "/") or src.startswith(dest + "/"):
                # a directory cannot be moved into itself; 'a' -> 'a/b' stands for old name a, new name a/b after re-creation
                pass
            for ab in (False, True):
                for by in (False, True):
                    if by and ab:
                        continue
                    yield {"tree": [list(e) for e in tree], "src": src, "dest": dest, "abs": ab, "bytes": by}


@st.composite
def hyp_cases(draw):
    ab = draw(st.booleans())
    by = draw(st.booleans())
    src, dest = draw(st.sampled_from(SPELLINGS + [("x", "b"), ("a", "ab"), ("ab", "a")]))
    abs_name = draw(st.sampled_from([None, ["q"], ["b"], ["t", "b"]]))
    # universe: dest basename, src basename, and the components of the destination path
    comps = [c for c in dest.split("/")] + [c for c in src.split("/")] + ["f", "b_", "bb"]
    if ab:
        comps += ["<ABS>"]
    names = st.sampled_from(comps)
    tree = {}

    def fill(prefix, level):
        for _ in range(draw(st.integers(0, 3 if level < 2 else 2))):
            n = draw(names)
            p = (prefix + "/" + n) if prefix else n
            if p in tree:
                continue
            if len(tree) >= 12:
                return
            k = draw(st.sampled_from("fdd" if level < 4 else "f"))
            if n == "<ABS>":
                k = "d"
            tree[p] = k
            if k == "d":
                fill(p, level + 1)

    fill("", 0)
    return {"tree": [[r, k] for r, k in sorted(tree.items())], "src": src, "dest": dest, "abs": ab, "bytes": by, "abs_name": abs_name}


# ----------------------------------------------------------------------------- third mechanism: the watch-path map of the inotify layer


@st.composite
def e1_cases(draw, tier):
    """Histories on the real inotify observer under a RELATIVE root whose own name recurs inside the tree (root 'a',
    names {a, b}): renaming a directory re-keys the recorded watch paths of its descendants; a textual rewrite would hit
    every occurrence of the directory's path in a descendant's path.  Judged by C03's justification of every event
    (synthetic ones included) and C02's probes of every directory."""
    from vlib import fsops

    cfg = {"recursive": True, "spelling": draw(st.sampled_from(["rel", "rel", "abs"])), "root_name": "a", "bytes": draw(st.sampled_from([False, False, True]))}
    opts = {
        "names": ["a", "b"], "depth": 4, "max_bursts": 4 if tier == "quick" else 6, "max_ops": 2, "sleeps": False, "boundary": False, "prebuilt": False,
        "weights": {"mkdir": 8, "rename": 10, "create": 3, "write": 1, "read": 0, "chmod": 0, "unlink": 1, "rmdir": 0, "rmtree": 1, "replace": 1},
    }  # fmt: skip
    h = draw(fsops.histories(opts))
    return {"cfg": cfg, "init": h["init"], "bursts": h["bursts"]}


def run_e1_case(case):
    from props import c02, c03

    c03.run_history(case)
    c02.run_case(case)
    renames = sum(1 for b in case["bursts"] for op in b if op[0] == "rename")
    deep = any(op[0] == "rename" and op[1].count("/") >= 1 for b in case["bursts"] for op in b)
    return renames >= 2, ["inotify-watch-path-map", f"renames={min(renames, 3)}"] + (["rename-below-top"] if deep else [])


# ----------------------------------------------------------------------------- shards

NSH = 16


def shards(tier, seed):
    return [(k, tier, seed, i) for i in range(NSH) for k in ("exh", "hyp", "e1")]


def run_shard(spec):
    kind, tier, seed, i = spec
    st_ = Stats()
    if kind == "e1":
        count = [0]

        def body(case):
            count[0] += 1
            nt, cl = run_e1_case(case)
            st_.case(["e1", case], nt, cl, sample=case if count[0] % 30 == 1 else None)

        res = runner.hyp_search(e1_cases(tier), body, seed=runner.derive_seed(seed, ID, "e1", i), max_examples=150 if tier == "quick" else 1000, shrink=False)
        if res is not None:
            case, v = res
            st_.fail(dict(case, kind="e1"), v.message, v.signature, getattr(v, "extra", None))
        st_.extra["inotify_histories"] = count[0]
        return st_
    if kind == "exh":
        st_.exhaustive = True
        n = 0
        for k, case in enumerate(exhaustive_cases(tier)):
            if k % NSH != i:
                continue
            n += 1
            try:
                info = run_pure_case(case)
            except Violation as v:
                st_.fail(case, v.message, v.signature)
                st_.exhaustive = False
                break
            st_.case(case, info["nontrivial"], info["classes"], sample=case if n % 150 == 1 else None)
        st_.extra["exhaustive_trees"] = n
        return st_
    count = [0]

    def body(case):
        count[0] += 1
        info = run_pure_case(case)
        st_.case(case, info["nontrivial"], info["classes"], sample=case if count[0] % 100 == 1 else None)

    res = runner.hyp_search(hyp_cases(), body, seed=runner.derive_seed(seed, ID, i), max_examples=1000 if tier == "quick" else 8000)
    if res is not None:
        case, v = res
        st_.fail(case, v.message, v.signature)
    st_.extra["random_trees"] = count[0]
    return st_


def replay(case):
    try:
        if case.get("kind") == "e1":
            run_e1_case(case)
            return []
        run_pure_case(case)
    except Violation as v:
        return [runner.Failure(case, v.message, v.signature)]
    return []
