"""C02 - a recursive watch covers every directory that exists, under its current name.

Same engine and generator family as C01, biased towards reshaping the directory tree (nested creation
bursts, create-then-rename, rename chains, move-in of pre-built trees, relative roots).  Oracle: after the
final drain every directory found on disk is probed with a uniquely named file.
"""

from __future__ import annotations

import os

from hypothesis import strategies as st

from props import c01
from vlib import fsops, runner
from vlib.runner import Stats, Violation

ID = "C02"
LEVEL = "exploration"
DESIGN_REF = "DESIGN.md §4 C02"
RULE = (
    "cases = C01-style histories biased to directory ops (mkdir, nested makedirs bursts with files, arrive-then-rename, "
    "rename chains incl. ancestors, move-in of pre-built trees, replace of an empty dir, rmtree + re-create), "
    "recursive and non-recursive, absolute and relative roots, normal and generate_full_events emitter; after the final drain EVERY directory of the real tree "
    "(enumerated from disk) gets a probe file.  non-trivial = the final tree has >= 1 directory that was not present "
    "at start or whose path changed; distinct = digest of (config, history, final tree shape)"
)
ASSUMPTIONS = c01.ASSUMPTIONS + [
    "probe = a uniquely named file created in the directory, followed by a sentinel in the root; the created event for the probe must precede the sentinel's event",
]
WALL_CAP = c01.WALL_CAP


def probe(s, case):
    from watchdog.events import FileCreatedEvent

    rec = bool(case["cfg"].get("recursive", True))
    dirs = sorted(p for p, k in fsops.disk_tree(s.root).items() if k == "d")
    s.probed = 0
    for i, d in enumerate(dirs):
        name = f"{fsops.PROBE}{i}"
        rel = fsops.join(d, name)
        fsops._touch(os.path.join(s.root, rel))
        evs, ok = s.drain()
        errs = s.thread_errors()
        if errs:
            raise Violation(f"library thread died while probing: {errs[0][:3]}", "thread-died:" + errs[0][2].split("(")[0])
        if not ok:
            raise runner.Inconclusive(f"sentinel not answered while probing {d!r}")
        s.probed += 1
        given = s.given
        gs = os.fsdecode(given) if isinstance(given, bytes) else str(given)
        exp = os.path.join(gs, rel)
        exp_t = os.fsencode(exp) if isinstance(given, bytes) else exp
        named = [e for e in evs if any(p and os.path.basename(os.fsdecode(p)) == name for p in (e.src_path, e.dest_path))]
        depth = d.count("/") + 1 if d else 0
        if rec or depth == 0:
            hit = [e for e in named if isinstance(e, FileCreatedEvent) and e.src_path == exp_t]
            if not hit:
                raise Violation(
                    f"probe {rel!r}: no FileCreatedEvent with src_path {exp_t!r} (events naming the probe: {named}; all: {evs[:8]}) "
                    f"after history {case['bursts']}",
                    "probe-unreported" if not named else "probe-wrong-path",
                )
            wrong = [e for e in named if e.src_path != exp_t]
            if wrong:
                raise Violation(f"probe {rel!r} also reported under another path: {wrong}", "probe-wrong-path")
        else:
            deep = [e for e in evs if any(p and (s.norm(p) or "").count("/") >= 1 for p in (e.src_path, e.dest_path))]
            if deep:
                raise Violation(f"non-recursive watch reported something below the root's direct children: {deep} (probe {rel!r})", "nonrecursive-deep-event")


def scope_of_window(s, evs, burst):
    """Under a non-recursive watch nothing below the root's direct children is ever reported - not when probed (see
    probe) and not while the history runs (e.g. the contents of a tree that is moved in)."""
    if bool(s.cfg.get("recursive", True)):
        return
    deep = [e for e in evs if all((s.norm(p) or "").count("/") >= 1 for p in (e.src_path, e.dest_path) if p)]
    if deep:
        raise Violation(f"non-recursive watch reported something below the root's direct children: {deep[:4]} (burst {burst})", "nonrecursive-deep-event")


def run_case(case):
    return c01.run_case(case, probe=probe, on_window=scope_of_window)


def final_info(case):
    m = fsops.model_after_init(case["init"])
    start = {p for p, v in m.tree.items() if v[0] == "d"}
    ids0 = {v[1]: p for p, v in m.tree.items() if v[0] == "d"}
    for b in case["bursts"]:
        for op in b:
            fsops.apply_op(m, tuple(op))
    final = {p: v for p, v in m.tree.items() if v[0] == "d"}
    new_or_moved = [p for p, v in final.items() if ids0.get(v[1]) != p]
    return bool(new_or_moved), sorted(final), len(new_or_moved)


@st.composite
def cases(draw, tier):
    cfg = {
        "recursive": draw(st.sampled_from([True, True, True, False])),
        "bytes": draw(st.sampled_from([False, False, False, True])),
        "bufsize": draw(st.sampled_from(c01.BUFSIZES)),
        "spelling": draw(st.sampled_from(["abs", "abs", "rel"])),
        "full": draw(st.sampled_from([False, False, False, True])),
    }
    opts = {
        "max_bursts": 4 if tier == "quick" else 7,
        "max_ops": 5,
        "makedirs": True,
        "move_in_replace": True,
        "weights": {"mkdir": 6, "makedirs": 6, "rename": 9, "move_in": 6, "create": 1, "write": 1, "read": 0, "chmod": 0, "unlink": 1, "replace": 3, "rmtree": 3, "move_out": 2},
    }
    h = draw(fsops.histories(opts))
    return {"cfg": cfg, "init": h["init"], "bursts": h["bursts"]}


NSH = 16


def shards(tier, seed):
    return [("hyp", tier, seed, i) for i in range(NSH)]


def run_shard(spec):
    kind, tier, seed, i = spec
    st_ = Stats()
    count = [0]
    probed = [0]

    def body(case):
        count[0] += 1
        run_case(case)
        nt, final, n_new = final_info(case)
        _, cl = c01.is_nontrivial(case)
        if c01.arrive_then_rename(case):
            cl.append("arrive-then-rename")
        if any(op[0] == "makedirs" for b in case["bursts"] for op in b):
            cl.append("nested-creation-burst")
        cl += ["recursive" if case["cfg"]["recursive"] else "non-recursive", "root:" + case["cfg"]["spelling"], "full-emitter" if case["cfg"].get("full") else "normal-emitter"]
        probed[0] += len(final)
        st_.case([case["cfg"], fsops.normalized_history(case), final], nt, cl, sample=case if count[0] % 40 == 1 else None)

    res = runner.hyp_search(cases(tier), body, seed=runner.derive_seed(seed, ID, i), max_examples=120 if tier == "quick" else 1500, shrink=False)
    if res is not None:
        case, v = res
        case2, v2 = minimize(case, v)
        st_.fail(case2, v2.message, v2.signature, v2.extra)
    st_.extra["directories_probed"] = probed[0]
    return st_


def minimize(case, v, budget=30):
    saved = c01.run_case

    def rc(c, probe_=None):
        return saved(c, probe=probe)

    c01.run_case = rc
    try:
        return c01.minimize(case, v, budget)
    finally:
        c01.run_case = saved


def replay(case):
    for _ in range(3):
        try:
            run_case(case)
        except Violation as v:
            return [runner.Failure(case, v.message, v.signature, v.extra)]
    return []
