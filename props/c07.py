"""C07 - monitoring never silently dies while the observer runs and the root exists.

C01's generator extended with what C01 excludes (operations on entries that left the tree, re-used names,
nested bursts, API re-scheduling, finally deleting the root) plus *race injection*: at a generated call index
of the library's own follow-up lookups (inotify_add_watch, os.walk in inotify_c / events) the harness performs
a real file-system operation on the entry about to be looked at (delete / rename aside / re-create) and then
calls through, so the lookup failure is a genuine race outcome produced by the real kernel.
"""

from __future__ import annotations

import os
import time

from hypothesis import strategies as st

from props import c01
from vlib import fsops, runner
from vlib.runner import Stats, Violation

ID = "C07"
LEVEL = "fault_enumeration"
DESIGN_REF = "DESIGN.md §3.1, §4 C07"
RULE = (
    "cases = (config, initial tree, bursts incl. ext ops / makedirs / api_resched / api_sched2 - one case in three without "
    "the pacing condition of C01: directory names re-used and contents touched back to back -, optional race plan "
    "(lookup call index 0-11, action delete|rename|recreate|blink = gone for that one call and back with a file inside), optional final root deletion).  Oracle: no library thread "
    "ends with an unhandled exception; afterwards a probe in the root and in every start directory that kept path and "
    "inode is reported; root deletion gives exactly one DirDeletedEvent(root) (none if the watch's event filter does not "
    "admit it), nothing after it, and a stopped emitter - also exhaustively over recursive x emitter kind x 6 event "
    "filters x root spelling (absolute, trailing separator, relative); one random case in four runs under an event filter. "
    "non-trivial = history has an ext op, a re-used name, an injected race that was actually hit, an API re-schedule or "
    "a root deletion; distinct = digest of the case"
)
ASSUMPTIONS = c01.ASSUMPTIONS + [
    "race injection replaces module attributes in the harness process only (watchdog.observers.inotify_c.inotify_add_watch, the name `os` in inotify_c and watchdog.events); the injected operation is a real rename/rmtree/mkdir on the scratch tree",
    "coverage is asserted only for directories that existed at start and kept path and inode (coverage that certainly existed); directories arriving later are C02's question",
]
WALL_CAP = c01.WALL_CAP

# ----------------------------------------------------------------------------- race proxies

_race = {"plan": None, "count": 0, "hits": [], "root": None, "busy": False}


def _maybe_inject(path):
    pl = _race["plan"]
    if pl is None or _race["busy"]:
        return
    idx = _race["count"]
    _race["count"] += 1
    if idx != pl["at"]:
        return
    root = _race["root"]
    p = os.fsdecode(path) if isinstance(path, bytes) else str(path)
    p = os.path.abspath(p)
    if not p.startswith(root + "/"):
        return
    _race["busy"] = True
    try:
        act = pl["action"]
        if os.path.lexists(p):
            if act == "rename":
                os.rename(p, p + "_zz")
            else:
                was_dir = os.path.isdir(p) and not os.path.islink(p)
                fsops._rmtree(p) if was_dir else os.unlink(p)
                if act == "recreate":
                    os.mkdir(p)
                elif act == "blink" and was_dir:
                    # gone for the call that is about to be made, back - with a file inside - right after it
                    def post(p=p):
                        try:
                            os.mkdir(p)
                            fsops._touch(os.path.join(p, "zz"))
                        except OSError:
                            pass

                    _race["hits"].append((idx, act, os.path.relpath(p, root)))
                    return post
            _race["hits"].append((idx, act, os.path.relpath(p, root)))
    except OSError:
        pass
    finally:
        _race["busy"] = False


def install_proxies():
    from watchdog import events as wev
    from watchdog.observers import inotify_c

    if getattr(inotify_c, "_verif_race", False):
        return
    real_add = inotify_c.inotify_add_watch

    def add_watch(fd, path, mask):
        post = _maybe_inject(path)
        try:
            return real_add(fd, path, mask)
        finally:
            if post:
                post()

    inotify_c.inotify_add_watch = add_watch

    class OsProxy:
        def __getattr__(self, name):
            return getattr(os, name)

        @staticmethod
        def walk(top, *a, **kw):
            _maybe_inject(top)
            return os.walk(top, *a, **kw)

    prox = OsProxy()
    inotify_c.os = prox
    wev.os = prox
    inotify_c._verif_race = True


# ----------------------------------------------------------------------------- execution


def run_case(case):
    from watchdog.events import DirDeletedEvent, FileCreatedEvent

    cfg = case["cfg"]
    install_proxies()
    _race.update(plan=None, count=0, hits=[])
    s = fsops.Session(cfg, case["init"])
    extra_handlers = []
    flt = cfg.get("event_filter")
    if flt is not None:
        from watchdog import events as _ev

        flt = [getattr(_ev, n) for n in flt]
    # does the watch's filter let the root's own DirDeletedEvent through?  (C11: a filter only removes events)
    admits_root_event = flt is None or any(issubclass(DirDeletedEvent, c) for c in flt)
    try:
        _race["root"] = s.root
        start_inodes = {p: os.lstat(os.path.join(s.root, p) if p else s.root).st_ino for p, k in s.start_tree.items() if k == "d"}
        _race.update(plan=case.get("race"), count=0, hits=[])
        root_deleted = False
        for bi, burst in enumerate(case["bursts"]):
            for op in burst:
                k = op[0]
                if k == "api_resched":
                    s.obs.unschedule(s.watch)  # removes every handler of the watch, the second one included
                    extra_handlers.clear()
                    try:
                        s.watch = fsops.with_instances(lambda: s.obs.schedule(s.handler, s.given, recursive=bool(cfg.get("recursive", True)), event_filter=flt))
                    except OSError:
                        # schedule() may report a directory that vanished during its initial walk to the caller
                        # (an error returned to the application, not a dying thread); the application retries
                        if not case.get("race"):
                            raise
                        _race["plan"] = None
                        s.watch = fsops.with_instances(lambda: s.obs.schedule(s.handler, s.given, recursive=bool(cfg.get("recursive", True)), event_filter=flt))
                elif k == "api_sched2":
                    r2 = fsops.Recorder()
                    extra_handlers.append(r2)
                    fsops.with_instances(lambda: s.obs.schedule(r2.make_handler(), s.given, recursive=bool(cfg.get("recursive", True)), event_filter=flt))
                elif k == "rmroot":
                    fsops.exec_op(("rmroot",), s.root, s.out)
                    root_deleted = True
                else:
                    try:
                        fsops.apply_op(s.model, tuple(op))
                        fsops.exec_op(tuple(op), s.root, s.out)
                    except (OSError, ValueError, KeyError):
                        if not case.get("race"):
                            raise
                        # an injected race removed or renamed what this op wanted to use: skip it
            if root_deleted:
                break
            evs, ok = s.drain()
            errs = s.thread_errors()
            if errs:
                raise Violation(f"library thread died: {errs[0][:3]} after burst {bi} {burst} (race hits {_race['hits']})", "thread-died:" + errs[0][2].split("(")[0], {"trace": errs[0][3]})
            if not ok:
                raise Violation(
                    f"three sentinels in the existing root went unreported after burst {bi} {burst} (race hits {_race['hits']}): monitoring died silently",
                    "silent-death",
                )
        _race["plan"] = None
        if root_deleted:
            # exactly one DirDeletedEvent(root), nothing after it, emitter stops
            deadline = time.monotonic() + 20
            emitters = list(s.obs.emitters)
            while time.monotonic() < deadline:
                with s.rec.cond:
                    got = [e for e in s.rec.events if isinstance(e, DirDeletedEvent) and s.norm(e.src_path) == ""]
                    if got or (not admits_root_event and not any(em.is_alive() for em in emitters)):
                        break
                    s.rec.cond.wait(0.2)
            errs = s.thread_errors()
            if errs:
                raise Violation(f"library thread died on root deletion: {errs[0][:3]}", "thread-died:" + errs[0][2].split("(")[0], {"trace": errs[0][3]})
            if not got and admits_root_event:
                raise Violation("root deleted but no DirDeletedEvent for the root within 20 s", "root-deleted-unreported")
            end = time.monotonic() + 10
            while time.monotonic() < end and any(em.is_alive() for em in emitters):
                time.sleep(0.02)
            alive = [em for em in emitters if em.is_alive()]
            time.sleep(0.05)
            with s.rec.cond:
                evs = list(s.rec.events)
            roots = [e for e in evs if isinstance(e, DirDeletedEvent) and s.norm(e.src_path) == ""]
            if len(roots) != (1 if admits_root_event else 0):
                raise Violation(f"{len(roots)} DirDeletedEvents for the root (event filter {cfg.get('event_filter')})", "root-deleted-count")
            after = evs[evs.index(roots[0]) + 1 :] if roots else []
            if after:
                raise Violation(f"events after the root's DirDeletedEvent: {after[:5]}", "events-after-root-deleted")
            if alive:
                raise Violation(f"emitter thread still alive {'10' if admits_root_event else '30'} s after the root was deleted (event filter {cfg.get('event_filter')})", "emitter-not-stopped")
            errs = s.thread_errors()
            if errs:
                raise Violation(f"library thread died on root deletion: {errs[0][:3]}", "thread-died:" + errs[0][2].split("(")[0], {"trace": errs[0][3]})
            return {"hits": list(_race["hits"]), "probed": 0}
        # coverage that certainly existed: start directories that kept path and inode.  Without an injected race the
        # history respects the pacing condition, so every directory that exists now must be covered as well.
        probed = 0
        rec = bool(cfg.get("recursive", True))
        targets = dict(start_inodes)
        if case.get("unpaced") and not case.get("race"):
            time.sleep(0.7)  # longer than the pairing delay: pending removals of watches have fallen due
        if not case.get("race"):
            for p, k_ in fsops.disk_tree(s.root).items():
                if k_ == "d" and p not in targets:
                    targets[p] = os.lstat(os.path.join(s.root, p)).st_ino
        for i, (p, ino) in enumerate(sorted(targets.items())):
            full = os.path.join(s.root, p) if p else s.root
            try:
                if os.lstat(full).st_ino != ino:
                    continue
            except OSError:
                continue
            if not rec and p != "":
                continue
            name = f"{fsops.PROBE}{i}"
            fsops._touch(os.path.join(full, name))
            evs, ok = s.drain()
            errs = s.thread_errors()
            if errs:
                raise Violation(f"library thread died while probing: {errs[0][:3]}", "thread-died:" + errs[0][2].split("(")[0], {"trace": errs[0][3]})
            if not ok:
                raise Violation(f"sentinels unreported while probing {p!r} (race hits {_race['hits']})", "silent-death")
            probed += 1
            rel = fsops.join(p, name)
            hit = [e for e in evs if isinstance(e, FileCreatedEvent) and s.norm(e.src_path) == rel]
            if not hit:
                raise Violation(
                    f"a change in directory {p or '.'!r} ({'same path and inode as at start' if p in start_inodes else 'arrived during the history'}) went unreported after history {case['bursts']} "
                    f"(race hits {_race['hits']}); events: {evs[:6]}",
                    "start-dir-unreported" if p in start_inodes else "dir-unreported",
                )
            for r2 in extra_handlers:
                with r2.cond:
                    if not any(isinstance(e, FileCreatedEvent) and s.norm(e.src_path) == rel for e in r2.events):
                        raise Violation(f"second handler scheduled on the same watch did not receive the probe in {p!r}", "second-handler-unreported")
        return {"hits": list(_race["hits"]), "probed": probed}
    finally:
        _race["plan"] = None
        s.close()


def classes_of(case, info):
    cl = []
    ops = [op for b in case["bursts"] for op in b]
    if any(op[0].startswith("ext_") for op in ops):
        cl.append("ext-op")
    if any(op[0] in ("api_resched", "api_sched2") for op in ops):
        cl.append("api-reschedule")
    if any(op[0] == "rmroot" for op in ops):
        cl.append("root-deletion")
    if info["hits"]:
        cl.append("race-hit:" + info["hits"][0][1])
    elif case.get("race"):
        cl.append("race-planned-not-hit")
    # re-used names
    m = fsops.model_after_init(case["init"])
    gone = set()
    reused = False
    for op in ops:
        if op[0] in ("api_resched", "api_sched2", "rmroot", "sleep"):
            continue
        before = set(m.tree)
        try:
            fsops.apply_op(m, tuple(op))
        except (ValueError, KeyError):
            break
        after = set(m.tree)
        if (after - before) & gone:
            reused = True
        gone |= before - after
    if reused:
        cl.append("name-reused")
    nt = bool(set(c.split(":")[0] for c in cl) & {"ext-op", "api-reschedule", "root-deletion", "race-hit", "name-reused"})
    cl.append("recursive" if case["cfg"].get("recursive", True) else "non-recursive")
    cl.append("root:" + case["cfg"].get("spelling", "abs"))
    if case.get("unpaced"):
        cl.append("unpaced-history")
    if case["cfg"].get("event_filter"):
        cl.append("filtered-watch")
        if any(op[0] == "rmroot" for op in ops):
            cl.append("root-deletion-under-filter")
    return nt, cl


@st.composite
def cases(draw, tier):
    cfg = {
        "recursive": draw(st.sampled_from([True, True, True, False])),
        "bytes": draw(st.sampled_from([False, False, True])),
        "full": draw(st.sampled_from([False, False, True])),
        "bufsize": draw(st.sampled_from(c01.BUFSIZES)),
        "spelling": draw(st.sampled_from(["abs", "abs", "slash", "rel", "relslash"])),
    }
    if draw(st.integers(0, 3)) == 0:
        # every filter keeps FileCreatedEvent: sentinels and probes are file creations
        cfg["event_filter"] = draw(st.sampled_from(FILTERS))
    opts = {
        "max_bursts": 4 if tier == "quick" else 7,
        "max_ops": 6,
        "makedirs": True,
        "ext": True,
        "reuse_bias": True,
        "move_in_replace": True,
        "weights": {"ext_create": 2, "ext_mkdir": 2, "ext_write": 1, "ext_unlink": 1, "ext_rmtree": 3, "ext_rename": 1, "move_out": 6, "mkdir": 6, "makedirs": 5, "rmtree": 4, "rmdir": 3},
    }
    unpaced = draw(st.integers(0, 2)) == 0
    if unpaced:
        # the statement of C07 has no pacing condition: names of directories are re-used and their contents touched
        # back to back; what is asserted then is limited to what must survive any history (see run_case)
        opts["unpaced"] = True
        opts["sleeps"] = draw(st.booleans())
    h = draw(fsops.histories(opts))
    bursts = h["bursts"]
    for b in bursts:
        if draw(st.integers(0, 9)) == 0:
            b.insert(draw(st.integers(0, len(b))), [draw(st.sampled_from(["api_resched", "api_sched2"]))])
    case = {"cfg": cfg, "init": h["init"], "bursts": bursts}
    if unpaced:
        case["unpaced"] = True
    if draw(st.integers(0, 2)) == 0:
        case["race"] = {"at": draw(st.integers(0, 11)), "action": draw(st.sampled_from(["delete", "rename", "recreate", "blink"]))}
    if draw(st.integers(0, 4)) == 0:
        bursts.append([["rmroot"]])
    return case


NSH = 16
FILTERS = [["FileCreatedEvent"], ["FileCreatedEvent", "DirDeletedEvent"], ["FileSystemEvent"], ["FileCreatedEvent", "FileModifiedEvent", "FileSystemMovedEvent"], ["FileCreatedEvent", "FileDeletedEvent"]]

EXH_STATES = c01.START_STATES + [
    [["mkdir", "a"], ["mkdir", "a/a"], ["mkdir", "a/ab"], ["create", "a/ab/a"], ["mkdir", "ab"], ["mkdir", "ab/a"], ["create", "b"], ["prebuild", "o1", [["a", "d"]], "d"]],
]


def exhaustive_cases(tier):
    """Every single op (thorough: every pair of ops, drained in between) from a few start states that contain sibling
    directories with prefix-related names; afterwards every start directory is probed (the oracle of run_case)."""
    opts = {"names": ["a", "ab"], "depth": 3, "ext": True}
    # root deletion under every configuration: recursive x emitter kind x event filter (incl. filters that do not
    # admit the root's DirDeletedEvent: nothing is delivered then, but the emitter still has to stop)
    for init in EXH_STATES[:2]:
        for rec in (True, False):
            for full in (False, True):
                for flt in [None] + FILTERS:
                    for spelling in ("abs", "slash", "rel"):
                        cfg = {"recursive": rec, "full": full, "spelling": spelling}
                        if flt:
                            cfg["event_filter"] = flt
                        yield {"cfg": cfg, "init": init, "bursts": [[["create", "b"]], [["rmroot"]]]}
    for init in EXH_STATES:
        m0 = fsops.model_after_init(init)

        def ops_of(m, tag):
            for op in fsops.candidate_ops(m, opts):
                if op[0] in ("read", "chmod", "write"):
                    continue
                if op[0] == "move_out":
                    op = ("move_out", op[1], f"x{tag}")
                if op[0] == "ext_rename":
                    op = ("ext_rename", op[1], f"y{tag}")
                yield op

        for op1 in ops_of(m0, 0):
            yield {"cfg": {"recursive": True}, "init": init, "bursts": [[list(op1)]]}
            if tier == "thorough":
                m1 = m0.copy()
                fsops.apply_op(m1, op1)
                for op2 in ops_of(m1, 1):
                    yield {"cfg": {"recursive": True}, "init": init, "bursts": [[list(op1)], [list(op2)]]}


def shards(tier, seed):
    return [(k, tier, seed, i) for i in range(NSH) for k in ("hyp", "exh")]


def run_shard(spec):
    kind, tier, seed, i = spec
    st_ = Stats()
    count = [0]
    probed = [0]
    hits = [0]
    if kind == "exh":
        st_.exhaustive = True
        n = 0
        for k, case in enumerate(exhaustive_cases(tier)):
            if k % NSH != i:
                continue
            n += 1
            try:
                info = run_case(case)
            except Violation as v:
                st_.fail(case, v.message, v.signature, v.extra)
                st_.exhaustive = False
                continue
            probed[0] += info["probed"]
            nt, cl = classes_of(case, info)
            st_.case(case, nt or case["bursts"][0][0][0] in ("move_out", "rmtree", "rename"), cl + ["exhaustive-root-deletion" if case["bursts"][-1][0][0] == "rmroot" else "exhaustive-op-then-probe"], sample=case if n % 30 == 1 else None)
        st_.extra["exhaustive_cases"] = n
        st_.extra["start_dirs_probed"] = probed[0]
        return st_

    def body(case):
        count[0] += 1
        info = run_case(case)
        probed[0] += info["probed"]
        hits[0] += len(info["hits"])
        nt, cl = classes_of(case, info)
        st_.case(case, nt, cl, sample=case if count[0] % 40 == 1 else None)

    res = runner.hyp_search(cases(tier), body, seed=runner.derive_seed(seed, ID, i), max_examples=130 if tier == "quick" else 2000, shrink=False)
    if res is not None:
        case, v = res
        st_.fail(case, v.message, v.signature, v.extra)
    st_.extra["start_dirs_probed"] = probed[0]
    st_.extra["race_injections_hit"] = hits[0]
    return st_


def replay(case):
    for _ in range(3):
        try:
            run_case(case)
        except Violation as v:
            return [runner.Failure(case, v.message, v.signature, v.extra)]
    return []
