"""C19 - event paths keep the caller's path type and the entry's exact name, on the inotify and the polling observer.

Engine E1.  Root spellings {str, bytes, pathlib.Path} x {absolute, relative, trailing slash}; names from an
alphabet with non-ASCII and undecodable bytes; C03's operation set incl. renames of directories with
descendants and move-in of trees (synthetic events); observers: inotify, inotify full, polling.
"""

from __future__ import annotations

import os

from hypothesis import strategies as st

from props import c01
from vlib import fsops, justify, runner
from vlib.runner import Stats, Violation

ID = "C19"
LEVEL = "exploration"
DESIGN_REF = "DESIGN.md §4 C19"
RULE = (
    "cases = (observer in {inotify, inotify-full, polling}, root path type in {str, bytes, Path}, spelling in {abs, rel, "
    "trailing slash, rel+slash}, recursive, history over names {a, e-acute, snowman, an undecodable byte name}, in one case "
    "of three a second handler scheduled on the same observer for the same directory under another type/spelling (also "
    "'/.'), before or after the first); every "
    "non-empty src/dest path of every delivered event is checked for type and for naming a real entry of the history "
    "after os.fsencode, each handler against the path its own schedule() call gave.  non-trivial = a non-ASCII or undecodable name occurs on a moved or synthetic event; distinct = "
    "digest of the case"
)
ASSUMPTIONS = [
    "the file-system encoding is UTF-8 with surrogateescape (os.fsencode/os.fsdecode), undecodable names are carried as surrogate-escaped str in the harness",
    "polling drain = two consecutive sentinels (events of one poll are emitted class by class, so the first sentinel may overtake directory events of the same poll)",
] + c01.ASSUMPTIONS[:2]
WALL_CAP = c01.WALL_CAP

NAMES = ["a", "é", "☃", "a_\udce4", "e\u0301"]  # precomposed and decomposed e-acute are different names


def check_paths(evs, given, names, burst, state, who=""):
    want_bytes = isinstance(given, bytes)
    gs = os.fsdecode(given) if want_bytes else str(given)
    allowed = {os.fsencode(os.path.join(gs, r) if r else gs) for r in names}
    allowed |= {os.fsencode(gs.rstrip("/")), os.fsencode(gs.rstrip("/") + "/")}
    for e in evs:
        for which, p in (("src_path", e.src_path), ("dest_path", e.dest_path)):
            if p in ("", b""):
                continue
            state["checked"] += 1
            if isinstance(p, bytes) != want_bytes or not isinstance(p, (bytes, str)):
                raise Violation(
                    f"{who}{type(e).__name__}.{which} = {p!r} is {type(p).__name__} but the watch was scheduled with {type(given).__name__} {given!r}",
                    "path-type:" + type(e).__name__ + (":synthetic" if e.is_synthetic else ""),
                )
            enc = os.fsencode(p)
            if enc not in allowed:
                raise Violation(
                    f"{who}{type(e).__name__}.{which} = {p!r} does not name an entry of the history under root {given!r} (burst {burst})",
                    "path-name:" + type(e).__name__ + (":synthetic" if e.is_synthetic else ""),
                )
            if (e.is_synthetic or e.event_type == "moved") and any(ord(c) > 127 for c in os.fsdecode(enc)[len(gs) :]):
                state["special"] = True


def run_case(case):
    cfg = case["cfg"]
    s = fsops.Session(cfg, case["init"])
    try:
        names = set(s.model.tree)
        state = {"checked": 0, "special": False, "twin_checked": 0}
        for bi, burst in enumerate(case["bursts"]):
            before = s.model.copy()
            s.run_burst(burst)
            facts = justify.window_facts(before, burst)
            names |= set(facts.names)
            evs, ok = s.drain()
            if cfg.get("observer") == "polling" and ok:
                more, ok = s.drain()
                evs += more
            errs = s.thread_errors()
            if errs:
                raise Violation(f"library thread died: {errs[0][:3]}", "thread-died:" + errs[0][2].split("(")[0])
            if not ok:
                raise runner.Inconclusive(f"sentinel not answered after burst {bi}")
            check_paths(evs, s.given, names | s.sentinel_names(), burst, state)
            if s.given2 is not None:
                # the second handler, registered for the same directory under another spelling, gets ITS spelling and type
                evs2, ok2 = s.twin_events()
                if not ok2:
                    raise runner.Inconclusive(f"sentinel not seen by the second handler after burst {bi}")
                n0 = state["checked"]
                check_paths(evs2, s.given2, names | s.sentinel_names(), burst, state, who="second watch of the same directory: ")
                state["twin_checked"] += state["checked"] - n0
        return state
    finally:
        s.close()


@st.composite
def cases(draw, tier):
    observer = draw(st.sampled_from(["inotify", "inotify", "inotify-full", "polling"]))
    cfg = {
        "observer": "polling" if observer == "polling" else "inotify",
        "full": observer == "inotify-full",
        "recursive": draw(st.sampled_from([True, True, False])),
        "pathtype": draw(st.sampled_from(["str", "bytes", "path"])),
        "spelling": draw(st.sampled_from(["abs", "rel", "slash", "relslash"])),
        "root_name": draw(st.sampled_from(["root", "ré", "r_\udce4"])),
    }
    if draw(st.integers(0, 2)) == 0:
        cfg["twin"] = {
            "pathtype": draw(st.sampled_from(["str", "bytes", "path"])),
            "spelling": draw(st.sampled_from(["abs", "rel", "slash", "relslash", "dot", "reldot"])),
            "first": draw(st.booleans()),
        }
    opts = {
        "names": NAMES,
        "max_bursts": 3 if tier == "quick" else 5,
        "max_ops": 4,
        "makedirs": True,
        "sleeps": False,
        "weights": {"rename": 9, "move_in": 6, "mkdir": 5, "makedirs": 4, "create": 3, "read": 0, "chmod": 1},
    }
    h = draw(fsops.histories(opts))
    return {"cfg": cfg, "init": h["init"], "bursts": h["bursts"]}


NSH = 16


def shards(tier, seed):
    return [("hyp", tier, seed, i) for i in range(NSH)]


def run_shard(spec):
    kind, tier, seed, i = spec
    st_ = Stats()
    count = [0]
    checked = [0]
    twin = [0]

    def body(case):
        count[0] += 1
        info = run_case(case)
        checked[0] += info["checked"]
        twin[0] += info["twin_checked"]
        cfg = case["cfg"]
        cl = ["obs:" + cfg["observer"] + ("-full" if cfg.get("full") else ""), "type:" + cfg["pathtype"], "spelling:" + cfg["spelling"], "root:" + ("ascii" if cfg["root_name"] == "root" else "non-ascii")]
        if info["special"]:
            cl.append("non-ascii-on-moved-or-synthetic")
        if cfg.get("twin"):
            tw = cfg["twin"]
            cl.append("second-watch-same-directory")
            if tw["pathtype"] != cfg["pathtype"]:
                cl.append("second-watch:other-path-type")
            if tw["spelling"] != cfg["spelling"]:
                cl.append("second-watch:other-spelling")
        st_.case(case, info["special"], cl, sample=case if count[0] % 40 == 1 else None)

    res = runner.hyp_search(cases(tier), body, seed=runner.derive_seed(seed, ID, i), max_examples=100 if tier == "quick" else 1500, shrink=False)
    if res is not None:
        case, v = res
        st_.fail(case, v.message, v.signature, v.extra)
    st_.extra["paths_checked"] = checked[0]
    st_.extra["paths_checked_second_watch"] = twin[0]
    return st_


def replay(case):
    for _ in range(3):
        try:
            run_case(case)
        except Violation as v:
            return [runner.Failure(case, v.message, v.signature, v.extra)]
    return []
