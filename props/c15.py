"""C15 - handlers call exactly the callbacks the event type and the match rules dictate.

Exhaustive product over event classes x paths x pattern / regex lists x flags (small alphabet), plus
Hypothesis for longer paths and patterns.  Oracle: a reference evaluator written here (right-anchored
component-wise fnmatch = the documented semantics of PurePath.match), cross-checked with pathlib itself.
"""

from __future__ import annotations

import fnmatch
import itertools
import os
import re
from pathlib import PurePosixPath

from hypothesis import strategies as st

from vlib import runner
from vlib.runner import Stats, Violation

ID = "C15"
LEVEL = "exploration"
DESIGN_REF = "DESIGN.md §4 C15"
RULE = (
    "cells = (handler kind, event class, src path, dest path, include list, exclude list, case_sensitive, "
    "ignore_directories, str|bytes), plus SEQUENCES of 2-6 events given to ONE handler instance (same paths under other "
    "flavours / classes; every dispatch judged on its own); exhaustive product over a small alphabet of paths and patterns (incl. None, "
    "empty and overlapping lists) + Hypothesis cells with longer paths/patterns; plus filter_paths / match_any_paths "
    "on path lists.  non-trivial = a moved event whose two paths fall on different sides of the rule, or a cell where "
    "an include and an exclude pattern both match, or a case-folding-dependent match, or an ignored directory event; "
    "distinct = the cell itself"
)
ASSUMPTIONS = [
    "paths and patterns contain no backslash or colon and do not start with '//' (PureWindowsPath would parse drives/UNC; the statement makes no claim there); the bare root path '/' is not generated",
    "for a pattern pair that collides only after case folding (e.g. 'A' included, 'a' excluded, case-insensitive) both ValueError and the reference verdict are accepted",
    "FileSystemEvent itself (event_type '') is not dispatched: it names no callback",
]

CALLBACKS = ["on_any_event", "on_moved", "on_created", "on_deleted", "on_modified", "on_closed", "on_closed_no_write", "on_opened"]


def event_classes():
    from watchdog import events as ev

    return [
        ev.FileCreatedEvent, ev.FileDeletedEvent, ev.FileModifiedEvent, ev.FileMovedEvent, ev.FileClosedEvent,
        ev.FileClosedNoWriteEvent, ev.FileOpenedEvent, ev.DirCreatedEvent, ev.DirDeletedEvent, ev.DirModifiedEvent,
        ev.DirMovedEvent, ev.FileSystemMovedEvent,
    ]  # fmt: skip


_style = itertools.count()
STYLES = ("leaf", "mixin", "grandparent", "instance")


def recorder(base, **kw):
    """A handler of class `base` whose callbacks record their names.  Where the callbacks are defined rotates: on the
    leaf class, on a mixin in front of `base`, on an intermediate base class, or as attributes of the instance - the
    library has to find them the way Python finds any attribute."""
    calls = []
    style = STYLES[next(_style) % len(STYLES)]

    def mk(name):
        def cb(self, event):
            calls.append(name)

        return cb

    def mk_plain(name):
        def cb(event):
            calls.append(name)

        return cb

    if style == "leaf":

        class R(base):
            pass

        for name in CALLBACKS:
            setattr(R, name, mk(name))
        return R(**kw), calls
    if style == "mixin":

        class Mixin:
            pass

        for name in CALLBACKS:
            setattr(Mixin, name, mk(name))

        class R(Mixin, base):
            pass

        return R(**kw), calls
    if style == "grandparent":

        class Mid(base):
            pass

        for name in CALLBACKS:
            setattr(Mid, name, mk(name))

        class R(Mid):
            pass

        return R(**kw), calls

    class R(base):
        pass

    h = R(**kw)
    for name in CALLBACKS:
        setattr(h, name, mk_plain(name))
    return h, calls


# ----------------------------------------------------------------------------- reference matcher


def ref_parts(p):
    root = ""
    if p.startswith("/"):
        root = "/"
    comps = [c for c in p.split("/") if c not in ("", ".")]
    return root, comps


def ref_match(path, pattern, case_sensitive):
    """Right-anchored component-wise fnmatch (documented PurePath.match semantics)."""
    if not case_sensitive:
        path, pattern = path.lower(), pattern.lower()
    proot, pparts = ref_parts(path)
    qroot, qparts = ref_parts(pattern)
    if not qroot and not qparts:
        raise ValueError("empty pattern")
    if qroot:
        # anchored pattern: the whole path must match, root included
        if not proot or len(pparts) != len(qparts):
            return False
    elif len(qparts) > len(pparts):
        return False  # the root is not a component a relative pattern could match
    for a, b in zip(reversed(pparts), reversed(qparts)):
        if not fnmatch.fnmatchcase(a, b):
            return False
    return True


def ref_path_ok(path, inc, exc, cs):
    """-> True/False, or 'conflict' / 'soft-conflict'"""
    included = ["*"] if inc is None else list(inc)
    excluded = [] if exc is None else list(exc)
    if set(included) & set(excluded):
        return "conflict"
    soft = (not cs) and bool({p.lower() for p in included} & {p.lower() for p in excluded})
    m_inc = any(ref_match(path, p, cs) for p in included)
    m_exc = any(ref_match(path, p, cs) for p in excluded)
    # cross-check the reference with pathlib itself
    lp = path if cs else path.lower()
    pl_inc = any(PurePosixPath(lp).match(p if cs else p.lower()) for p in included)
    pl_exc = any(PurePosixPath(lp).match(p if cs else p.lower()) for p in excluded)
    if (m_inc, m_exc) != (pl_inc, pl_exc):
        raise runner.Inconclusive(f"reference matcher disagrees with pathlib on {path!r} inc={included} exc={excluded} cs={cs}")
    if soft:
        return "soft-conflict", (m_inc and not m_exc), m_inc, m_exc
    return (m_inc and not m_exc), None, m_inc, m_exc


# ----------------------------------------------------------------------------- cell checks


def mk_event(cls, src, dest, as_bytes):
    from watchdog import events as ev

    if as_bytes:
        src, dest = os.fsencode(src), os.fsencode(dest)
    if issubclass(cls, ev.FileSystemMovedEvent):
        return cls(src, dest)
    return cls(src)


def is_dir_class(cls):
    """Which event classes are directory events is read off their names, not asked of the library."""
    return cls.__name__.startswith("Dir")


EVENT_TYPES = {"Moved": "moved", "Created": "created", "Deleted": "deleted", "Modified": "modified", "Closed": "closed", "ClosedNoWrite": "closed_no_write", "Opened": "opened"}


def check_base(cls, src, dest, as_bytes):
    from watchdog.events import FileSystemEventHandler

    h, calls = recorder(FileSystemEventHandler)
    e = mk_event(cls, src, dest, as_bytes)
    n = cls.__name__
    if n.startswith(("Dir", "File")) and n != "FileSystemEvent" and n != "FileSystemMovedEvent":
        kind = n[3:-5] if n.startswith("Dir") else n[4:-5]
        if e.is_directory != n.startswith("Dir") or cls.is_directory != n.startswith("Dir") or e.event_type != EVENT_TYPES[kind]:
            raise Violation(f"{n}: is_directory={e.is_directory!r} (class attribute {cls.is_directory!r}), event_type={e.event_type!r}", "event-attributes")
    h.dispatch(e)
    exp = ["on_any_event", f"on_{cls.event_type}"]
    if calls != exp:
        raise Violation(f"base handler: {cls.__name__} -> {calls}, expected {exp}", "base-dispatch")
    # the library's own subclass of the base handler in front of a user's handler (cooperative super() chain): the
    # handler behind it still gets on_any_event and exactly the callback of the event's type (seeded change C15-9)
    import logging

    from watchdog.events import LoggingEventHandler

    calls2 = []
    ns = {name: (lambda name: lambda self, event: calls2.append(name))(name) for name in ["on_any_event"] + [f"on_{t}" for t in EVENT_TYPES.values()]}
    Behind = type("Behind", (FileSystemEventHandler,), ns)
    Composed = type("Composed", (LoggingEventHandler, Behind), {})
    lg = logging.getLogger("verif.c15.null")
    lg.propagate = False
    lg.setLevel(logging.CRITICAL + 1)
    Composed(logger=lg).dispatch(mk_event(cls, src, dest, as_bytes))
    if calls2 != exp:
        raise Violation(f"LoggingEventHandler in front of a handler: {cls.__name__} -> {calls2}, expected {exp}", "base-dispatch-composed")


def check_pattern(cls, src, dest, inc, exc, cs, ign, as_bytes):
    from watchdog.events import FileSystemMovedEvent, PatternMatchingEventHandler

    h, calls = recorder(PatternMatchingEventHandler, patterns=inc, ignore_patterns=exc, ignore_directories=ign, case_sensitive=cs)
    e = mk_event(cls, src, dest, as_bytes)
    paths = [p for p in ((dest if issubclass(cls, FileSystemMovedEvent) else ""), src) if p]
    classes = []
    nontrivial = False
    exp_dispatch = None
    conflict = False
    soft = False
    if ign and is_dir_class(cls):
        exp_dispatch = False
        classes.append("ignored-directory")
        nontrivial = True
    else:
        verdicts = []
        for p in paths:
            r = ref_path_ok(p, inc, exc, cs)
            if r == "conflict":
                conflict = True
                break
            if r[0] == "soft-conflict":
                soft = True
                verdicts.append(r[1])
            else:
                verdicts.append(r[0])
            if r[2] and r[3]:
                classes.append("include-and-exclude-match")
                nontrivial = True
            if not cs and any(ref_match(p, q, False) != ref_match(p, q, True) for q in (inc or []) + (exc or [])):
                classes.append("case-folding-matters")
                nontrivial = True
        if not conflict:
            exp_dispatch = any(verdicts)
            if len(verdicts) == 2 and verdicts[0] != verdicts[1]:
                classes.append("moved-paths-on-different-sides")
                nontrivial = True
    try:
        h.dispatch(e)
        raised = None
    except ValueError as x:
        raised = x
    desc = f"PatternMatchingEventHandler(patterns={inc}, ignore_patterns={exc}, ignore_directories={ign}, case_sensitive={cs}).dispatch({e!r})"
    if conflict:
        classes.append("conflict")
        if raised is None:
            raise Violation(f"{desc}: pattern both included and excluded but no ValueError (calls {calls})", "conflict-not-rejected")
        return nontrivial, classes
    if raised is not None:
        if soft:
            classes.append("soft-conflict")
            return nontrivial, classes
        raise Violation(f"{desc}: raised ValueError({raised}) without a conflicting pattern", "spurious-valueerror")
    exp = ["on_any_event", f"on_{cls.event_type}"] if exp_dispatch else []
    if calls != exp:
        raise Violation(f"{desc}: callbacks {calls}, expected {exp}", "pattern-dispatch")
    classes.append("dispatched" if exp_dispatch else "not-dispatched")
    return nontrivial, classes


def ref_regex_dispatch(paths, regexes, ignore, cs):
    flags = 0 if cs else re.IGNORECASE
    if regexes is None:
        regexes = [r".*"]
    elif isinstance(regexes, str):
        regexes = [regexes]
    ignore = [] if ignore is None else ignore
    ign = [bool(re.match(r, p, flags)) for p in paths for r in ignore]
    inc = [any(re.match(r, p, flags) for r in regexes) for p in paths]
    return (not any(ign)) and any(inc), any(ign), inc


def check_regex(cls, src, dest, regexes, ignore, cs, ign, as_bytes):
    from watchdog.events import FileSystemMovedEvent, RegexMatchingEventHandler

    h, calls = recorder(RegexMatchingEventHandler, regexes=regexes, ignore_regexes=ignore, ignore_directories=ign, case_sensitive=cs)
    e = mk_event(cls, src, dest, as_bytes)
    paths = [p for p in ((dest if issubclass(cls, FileSystemMovedEvent) else ""), src) if p]
    classes = []
    nontrivial = False
    if ign and is_dir_class(cls):
        exp_dispatch = False
        classes.append("ignored-directory")
        nontrivial = True
    else:
        exp_dispatch, any_ign, inc = ref_regex_dispatch(paths, regexes, ignore, cs)
        if len(inc) == 2 and inc[0] != inc[1]:
            classes.append("moved-paths-on-different-sides")
            nontrivial = True
        if any_ign and any(inc):
            classes.append("include-and-exclude-match")
            nontrivial = True
    h.dispatch(e)
    exp = ["on_any_event", f"on_{cls.event_type}"] if exp_dispatch else []
    if calls != exp:
        raise Violation(
            f"RegexMatchingEventHandler(regexes={regexes}, ignore_regexes={ignore}, ignore_directories={ign}, case_sensitive={cs})"
            f".dispatch({e!r}): callbacks {calls}, expected {exp}",
            "regex-dispatch",
        )
    classes.append("dispatched" if exp_dispatch else "not-dispatched")
    return nontrivial, classes


def check_filter(paths, inc, exc, cs):
    from watchdog.utils.patterns import filter_paths, match_any_paths

    exp = []
    conflict = soft = False
    both = False
    for p in paths:
        r = ref_path_ok(p, inc, exc, cs)
        if r == "conflict":
            conflict = True
            break
        if r[0] == "soft-conflict":
            soft = True
            if r[1]:
                exp.append(p)
        elif r[0]:
            exp.append(p)
        both = both or (r[2] and r[3])
    desc = f"filter_paths({paths}, included_patterns={inc}, excluded_patterns={exc}, case_sensitive={cs})"
    try:
        got = list(filter_paths(paths, included_patterns=inc, excluded_patterns=exc, case_sensitive=cs))
        got_any = match_any_paths(paths, included_patterns=inc, excluded_patterns=exc, case_sensitive=cs)
        raised = None
    except ValueError as x:
        raised = x
    if conflict:
        if raised is None:
            raise Violation(f"{desc}: conflicting pattern not rejected", "conflict-not-rejected")
        return True, ["filter", "conflict"]
    if raised is not None:
        if soft:
            return False, ["filter", "soft-conflict"]
        raise Violation(f"{desc}: raised ValueError({raised}) without a conflicting pattern", "spurious-valueerror")
    if got != exp:
        raise Violation(f"{desc} = {got}, reference {exp}", "filter-paths")
    if bool(got_any) != bool(exp):
        raise Violation(f"match_any_paths(...)={got_any} but filter gives {exp} for {desc}", "match-any-paths")
    return both or (0 < len(exp) < len(paths)), ["filter"] + (["include-and-exclude-match"] if both else [])


def check_sequence(hkind, inc, exc, cs, ign, events, as_bytes):
    """ONE handler instance receives the events one after the other; every dispatch is judged on its own (a handler
    must not carry anything over from one event to the next)."""
    from watchdog.events import FileSystemEventHandler, PatternMatchingEventHandler, RegexMatchingEventHandler

    by_name = {c.__name__: c for c in event_classes()}
    if hkind == "pattern":
        h, calls = recorder(PatternMatchingEventHandler, patterns=inc, ignore_patterns=exc, ignore_directories=ign, case_sensitive=cs)
    elif hkind == "regex":
        h, calls = recorder(RegexMatchingEventHandler, regexes=inc, ignore_regexes=exc, ignore_directories=ign, case_sensitive=cs)
    else:
        h, calls = recorder(FileSystemEventHandler)
    flips = 0
    prev = None
    for i, (cname, src, dest) in enumerate(events):
        cls = by_name[cname]
        e = mk_event(cls, src, dest, as_bytes)
        paths = [p for p in ((dest if "Moved" in cname else ""), src) if p]
        if hkind == "base":
            exp_dispatch = True
        elif ign and is_dir_class(cls):
            exp_dispatch = False
        elif hkind == "pattern":
            verdicts = []
            for p in paths:
                r = ref_path_ok(p, inc, exc, cs)
                if r == "conflict" or r[0] == "soft-conflict":
                    return False, ["sequence", "conflict-skipped"]
                verdicts.append(r[0])
            exp_dispatch = any(verdicts)
        else:
            exp_dispatch = ref_regex_dispatch(paths, inc, exc, cs)[0]
        del calls[:]
        h.dispatch(e)
        exp = ["on_any_event", f"on_{cls.event_type}"] if exp_dispatch else []
        if calls != exp:
            raise Violation(
                f"{hkind} handler (include={inc}, exclude={exc}, ignore_directories={ign}, case_sensitive={cs}): event #{i} {e!r} of the sequence "
                f"{events} gave callbacks {calls}, expected {exp} (the same handler instance had received the earlier events)",
                "sequence-dispatch",
            )
        if prev is not None and prev[0] == (src, dest) and prev[1] != exp_dispatch:
            flips += 1
        prev = ((src, dest), exp_dispatch)
    return flips > 0, ["sequence", hkind] + (["same-paths-different-verdict"] if flips else [])


def run_cell(cell):
    kind = cell[0]
    by_name = {c.__name__: c for c in event_classes()}
    if kind == "sequence":
        _, hkind, inc, exc, cs, ign, events, as_bytes = cell
        return check_sequence(hkind, inc, exc, cs, ign, [tuple(e) for e in events], as_bytes)
    if kind == "base":
        _, cname, src, dest, as_bytes = cell
        check_base(by_name[cname], src, dest, as_bytes)
        return False, ["base", cname]
    if kind == "pattern":
        _, cname, src, dest, inc, exc, cs, ign, as_bytes = cell
        nt, cl = check_pattern(by_name[cname], src, dest, inc, exc, cs, ign, as_bytes)
        return nt, ["pattern"] + cl
    if kind == "regex":
        _, cname, src, dest, inc, exc, cs, ign, as_bytes = cell
        nt, cl = check_regex(by_name[cname], src, dest, inc, exc, cs, ign, as_bytes)
        return nt, ["regex"] + cl
    if kind == "filter":
        _, paths, inc, exc, cs = cell
        return check_filter(list(paths), inc, exc, cs)
    raise AssertionError(kind)


# ----------------------------------------------------------------------------- domains

PATHS = ["a", "B", "a/B", "/a/b", "x.py", "d/X.PY", "./a", "ab", "/d/a", "b/a/x.py"]
PATS = [None, [], ["*"], ["a"], ["A"], ["*.py"], ["?"], ["[ab]"], ["d/*"], ["/a/*"], ["a", "*.py"], ["B", "b"], ["*", "a"]]
PATS_Q = [None, [], ["*"], ["a"], ["A"], ["*.py"], ["[ab]"], ["d/*"], ["/a/*"], ["a", "*.py"]]
REGEXES = [None, r".*", [r".*\.py$"], [r"a"], [r"/a/"], [r"[ab]$", r"d/"], []]
IGN_REGEXES = [None, [], [r".*\.py$"], [r"A"], [r".*B$"], [r"a", r"x"]]


def exhaustive_cells(tier):
    names = [c.__name__ for c in event_classes()]
    moved = {"FileMovedEvent", "DirMovedEvent", "FileSystemMovedEvent"}
    pats = PATS_Q if tier == "quick" else PATS
    paths = PATHS[:7] if tier == "quick" else PATHS
    for cname in names:
        dests = ([""] + paths) if cname in moved else [""]
        for src in paths:
            for dest in dests:
                for b in (False, True):
                    yield ("base", cname, src, dest, b)
                for inc, exc, cs, ign in itertools.product(pats, pats, (True, False), (True, False)):
                    for b in (False, True):
                        if b and (cs or ign):
                            continue  # bytes paths: decoding is independent of flags; keep the product small
                        yield ("pattern", cname, src, dest, inc, exc, cs, ign, b)
                for inc, exc, cs, ign in itertools.product(REGEXES, IGN_REGEXES, (True, False), (True, False)):
                    yield ("regex", cname, src, dest, inc, exc, cs, ign, False)
    for n in (0, 1, 2, 3):
        for ps in itertools.product(paths[:5], repeat=n):
            for inc, exc, cs in itertools.product(pats, pats, (True, False)):
                yield ("filter", list(ps), inc, exc, cs)
    # one handler instance, every ordered pair / triple of a small event set (same paths with other flavours and classes)
    evs = [("FileCreatedEvent", "a", ""), ("DirCreatedEvent", "a", ""), ("FileModifiedEvent", "a", ""), ("DirModifiedEvent", "a", ""),
           ("FileMovedEvent", "a", "x.py"), ("DirMovedEvent", "a", "x.py"), ("FileCreatedEvent", "x.py", ""), ("DirDeletedEvent", "x.py", "")]
    confs = [("pattern", None, None), ("pattern", ["a"], None), ("pattern", ["*.py"], ["a"]), ("regex", None, None), ("regex", [r".*\.py$"], None), ("regex", None, [r"a$"]), ("base", None, None)]
    for hkind, inc, exc in confs:
        for ign in (True, False):
            for seq in itertools.chain(itertools.product(evs, repeat=2), itertools.product(evs[:5], repeat=3) if tier != "quick" else ()):
                yield ("sequence", hkind, inc, exc, True, ign, [list(e) for e in seq], False)


COMP = st.sampled_from(["a", "b", "A", "B", "ab", "Ab", "x.py", "X.PY", "a.b", ".", "d", "é", "a b"])
PATCOMP = st.sampled_from(["*", "?", "a", "A", "b", "[ab]", "[!a]", "*.py", "*.PY", "a*", "*b", "d", "??", "é", "a.?"])


@st.composite
def hyp_path(draw):
    comps = draw(st.lists(COMP, min_size=1, max_size=4))
    p = "/".join(comps)
    if draw(st.integers(0, 3)) == 0:
        p = "/" + p
    if set(p) <= {"/", "."}:
        p = p + "/a"
    return p


@st.composite
def hyp_pattern(draw):
    comps = draw(st.lists(PATCOMP, min_size=1, max_size=3))
    p = "/".join(comps)
    if draw(st.integers(0, 4)) == 0:
        p = "/" + p
    return p


PATLIST = st.one_of(st.none(), st.lists(hyp_pattern(), max_size=3))


@st.composite
def hyp_cells(draw):
    kind = draw(st.sampled_from(["pattern", "pattern", "regex", "filter", "sequence"]))
    cs = draw(st.booleans())
    if kind == "sequence":
        hkind = draw(st.sampled_from(["pattern", "pattern", "regex", "base"]))
        names = [c.__name__ for c in event_classes()]
        pool = draw(st.lists(hyp_path(), min_size=1, max_size=2))
        events = []
        for _ in range(draw(st.integers(2, 6))):
            cname = draw(st.sampled_from(names))
            src = draw(st.sampled_from(pool))
            dest = draw(st.sampled_from(pool)) if "Moved" in cname else ""
            events.append([cname, src, dest])
        if hkind == "pattern":
            inc, exc = draw(PATLIST), draw(PATLIST)
        elif hkind == "regex":
            rx = st.sampled_from([r".*", r"a", r".*\.py$", r".*/b", r"[ab]+$", r"A.*"])
            inc, exc = draw(st.one_of(st.none(), st.lists(rx, max_size=2))), draw(st.one_of(st.none(), st.lists(rx, max_size=2)))
        else:
            inc = exc = None
        return ("sequence", hkind, inc, exc, cs, draw(st.booleans()), events, draw(st.booleans()))
    if kind == "filter":
        return ("filter", draw(st.lists(hyp_path(), max_size=4)), draw(PATLIST), draw(PATLIST), cs)
    names = [c.__name__ for c in event_classes()]
    cname = draw(st.sampled_from(names + ["FileMovedEvent", "DirMovedEvent"]))
    src = draw(hyp_path())
    dest = draw(hyp_path()) if "Moved" in cname else ""
    if "Moved" in cname and draw(st.integers(0, 5)) == 0:
        if draw(st.booleans()):
            src = ""
        else:
            dest = ""
    ign = draw(st.booleans())
    b = draw(st.booleans())
    if kind == "pattern":
        return ("pattern", cname, src, dest, draw(PATLIST), draw(PATLIST), cs, ign, b)
    rx = st.sampled_from([r".*", r"a", r".*\.py$", r".*/b", r"[ab]+$", r".*é", r"/", r"(?:.*/)?x\.py", r"A.*"])
    inc = draw(st.one_of(st.none(), rx, st.lists(rx, max_size=2)))
    exc = draw(st.one_of(st.none(), st.lists(rx, max_size=2)))
    return ("regex", cname, src, dest, inc, exc, cs, ign, b)


# ----------------------------------------------------------------------------- shards

NSH = 16


def shards(tier, seed):
    return [(k, tier, seed, i) for i in range(NSH) for k in ("exh", "hyp")]


def run_shard(spec):
    kind, tier, seed, i = spec
    st_ = Stats()
    if kind == "exh":
        st_.exhaustive = True
        n = 0
        for k, cell in enumerate(exhaustive_cells(tier)):
            if k % NSH != i:
                continue
            n += 1
            try:
                nt, cl = run_cell(cell)
            except Violation as v:
                st_.fail({"cell": list(cell)}, v.message, v.signature)
                st_.exhaustive = False
                break
            st_.case(list(cell), nt, cl, sample=list(cell) if n % 9000 == 1 else None)
        st_.extra["exhaustive_cells"] = n
        return st_
    count = [0]

    def body(cell):
        count[0] += 1
        nt, cl = run_cell(cell)
        st_.case(list(cell), nt, cl, sample=list(cell) if count[0] % 500 == 1 else None)

    res = runner.hyp_search(hyp_cells(), body, seed=runner.derive_seed(seed, ID, i), max_examples=2500 if tier == "quick" else 40000)
    if res is not None:
        cell, v = res
        st_.fail({"cell": list(cell)}, v.message, v.signature)
    st_.extra["random_cells"] = count[0]
    return st_


def replay(case):
    cell = case["cell"]
    try:
        run_cell(tuple(cell))
    except Violation as v:
        return [runner.Failure(case, v.message, v.signature)]
    return []
