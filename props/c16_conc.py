"""C16 (concurrent part): 1-3 producers and one consumer on the real EventQueue under generated schedules with
line-level scheduling points in bricks.py and queue.py; every recorded history is checked for linearizability
against the sequential specification of props/c16.py (FIFO + permitted consecutive-duplicate drop)."""

from __future__ import annotations

from hypothesis import strategies as st

from vlib import runner
from vlib.dsched import core, explore, harness, loader
from vlib.runner import Stats, Violation

LINES = ("bricks", "queue")
NAMES = ["A", "A'", "B"]
EQ = {"A": 1, "A'": 1, "B": 2}


def make_items(W):
    w = W.api.ObservedWatch("/r", recursive=True)
    return {
        "A": (W.events.FileCreatedEvent("/r/a"), w),
        "A'": (W.events.FileCreatedEvent("/r/a"), W.api.ObservedWatch("/r", recursive=True)),
        "B": (W.events.FileModifiedEvent("/r/a"), w),
    }


def make_main(prog):
    W = loader.load()
    th = core.fake_threading
    Empty = core.fake_queue.Empty

    def main(s):
        items = make_items(W)
        names = {id(v): k for k, v in items.items()}
        q = W.api.EventQueue()
        done = th.Event()

        def producer(pi, seq):
            for name in seq:
                if name == "~":
                    core.fake_time.sleep(0.5)  # a pause: the consumer gets to take what is waiting
                    continue
                n = s.record("inv", ("put", name, pi))
                q.put(items[name])
                s.record("ret", (n, None))

        def consumer():
            while True:
                n = s.record("inv", ("get", None, "c"))
                try:
                    x = q.get(block=True, timeout=1.0)
                    s.record("ret", (n, names[id(x)]))
                except Empty:
                    s.record("ret", (n, "EMPTY"))
                    if done.is_set():
                        break

        ts = [th.Thread(target=producer, args=(i, seq), name=f"producer{i}") for i, seq in enumerate(prog["producers"])]
        c = th.Thread(target=consumer, name="consumer")
        if prog.get("consumer_first"):
            c.start()
        for t in ts:
            t.start()
        if not prog.get("consumer_first"):
            c.start()
        for t in ts:
            t.join()
        done.set()
        c.join()

    return main


def linearizable(ops):
    """ops: list of (inv_seq, ret_seq, kind, arg, result).  Brute-force search with state sets."""
    n = len(ops)
    before = [[j for j in range(n) if ops[j][1] < ops[i][0]] for i in range(n)]  # j must precede i
    seen = set()

    def step(states, op):
        kind, arg, res = op[2], op[3], op[4]
        new = set()
        if kind == "put":
            for qd in states:
                new.add(qd + (arg,))
                if qd and EQ[qd[-1]] == EQ[arg]:
                    new.add(qd)
        else:
            for qd in states:
                if res == "EMPTY":
                    if not qd:
                        new.add(qd)
                elif qd and qd[0] == res:
                    new.add(qd[1:])
        return frozenset(new)

    def rec(done, states):
        if len(done) == n:
            return True
        key = (done, states)
        if key in seen:
            return False
        seen.add(key)
        for i in range(n):
            if i in done or any(j not in done for j in before[i]):
                continue
            ns = step(states, ops[i])
            if ns and rec(done | {i}, ns):
                return True
        return False

    return rec(frozenset(), frozenset({()}))


def check(prog, r, s):
    v = harness.basic_verdict(r)
    if v:
        raise Violation(f"{v[1]} (program {prog})", v[0])
    inv = {}
    ops = []
    for seq, tid, tag, p in s.log:
        if tag == "inv":
            inv[seq] = p
        elif tag == "ret":
            n, res = p
            kind, arg, who = inv[n]
            ops.append((n, seq, kind, arg, res))
    if len(ops) > 16:
        raise runner.Inconclusive(f"history too long for the brute-force linearizability check: {len(ops)} ops")
    if not linearizable(ops):
        hist = [(o[2], o[3], o[4], o[0], o[1]) for o in ops]
        raise Violation(f"history is not linearizable w.r.t. the queue specification: {hist} (program {prog})", "not-linearizable")
    # classes
    cl = set()
    got = [o[4] for o in ops if o[2] == "get" and o[4] != "EMPTY"]
    nput = sum(1 for o in ops if o[2] == "put")
    if len(got) < nput:
        cl.add("duplicate-dropped")
    offered = [o[3] for o in sorted(ops, key=lambda o: o[0]) if o[2] == "put"]
    if any(EQ[a] == EQ[b] for a, b in zip(offered, offered[1:])):
        cl.add("equal-items-offered-consecutively")
    if any(EQ[a] == EQ[c] != EQ[b] for a, b, c in zip(offered, offered[1:], offered[2:])):
        cl.add("equal-items-separated-by-other")
    if r.preemptions:
        cl.add(f"preemptions={min(r.preemptions, 3)}")
    overl = any(a[2] == "put" and b[2] == "put" and a is not b and a[0] < b[1] and b[0] < a[1] for a in ops for b in ops)
    if overl:
        cl.add("overlapping-puts")
    return bool(cl & {"equal-items-offered-consecutively", "equal-items-separated-by-other"}) and (overl or r.preemptions > 0), sorted(cl)


FIXED = [
    {"producers": [["A", "A'"]], "consumer_first": False},
    {"producers": [["A"], ["A'"]], "consumer_first": True},
    {"producers": [["A", "B"], ["A'"]], "consumer_first": False},
    {"producers": [["A", "B", "A'"]], "consumer_first": True},
    {"producers": [["A"], ["A'"], ["B"]], "consumer_first": False},
    # two producers offer equal items at the same time, one of them offers it once more after the consumer has taken it
    {"producers": [["A", "~", "A"], ["A'"]], "consumer_first": True},
    {"producers": [["A", "~", "A'"], ["A", "B"]], "consumer_first": False},
]


@st.composite
def programs(draw):
    np_ = draw(st.integers(1, 3))
    prods = [draw(st.lists(st.sampled_from(NAMES), min_size=1, max_size=3 if np_ < 3 else 2)) for _ in range(np_)]
    for pr in prods:
        if len(pr) >= 2 and draw(st.integers(0, 2)) == 0:
            pr.insert(draw(st.integers(1, len(pr) - 1)), "~")  # a pause between two of its puts
    return {"producers": prods, "consumer_first": draw(st.booleans())}


NSH = 16


def shards(tier, seed):
    return [("conc", tier, seed, i, "dfs") for i in range(NSH)] + [("conc", tier, seed, i, "rand") for i in range(NSH)]


def run_shard(spec):
    _, tier, seed, i, mode = spec
    harness.ensure_lines(LINES)
    st_ = Stats()
    if mode == "dfs":
        bound = 1 if tier == "quick" else 2
        total = 0
        st_.exhaustive = True
        for pi, prog in enumerate(FIXED):
            main = make_main(prog)

            def rw(prefix, prog=prog, main=main, pi=pi):
                r, s = harness.execute(main, prefix=prefix)
                chosen = [d[2] for d in r.decisions]
                try:
                    nt, cl = check(prog, r, s)
                except Violation as v:
                    v.prefix = chosen
                    raise
                st_.case(["conc-dfs", pi, chosen], nt, ["conc"] + cl, sample={"program": prog, "prefix": chosen} if st_.evaluations % 1500 == 0 else None)
                return r.decisions

            try:
                runs, done = explore.dfs(rw, bound, shard=(i, NSH), max_runs=60000)
            except Violation as v:
                st_.fail({"kind": "conc-prefix", "program": prog, "prefix": getattr(v, "prefix", None)}, v.message, v.signature)
                st_.exhaustive = False
                continue
            total += runs
            st_.exhaustive = st_.exhaustive and done
        st_.extra["conc_dfs_schedules"] = total
        st_.notes.append(f"conc DFS preemption bound {bound}")
        return st_
    count = [0]

    def body(case):
        prog, sched = case
        count[0] += 1
        r, s = harness.execute_random(make_main(prog), sched)
        nt, cl = check(prog, r, s)
        st_.case(["conc-rand", prog, [d[2] for d in r.decisions]], nt, ["conc"] + cl, sample={"program": prog, "schedule": sched} if count[0] % 400 == 1 else None)

    res = runner.hyp_search(st.tuples(programs(), harness.SCHEDULES), body, seed=runner.derive_seed(seed, "C16c", i), max_examples=2000 if tier == "quick" else 12000)
    if res is not None:
        (prog, sched), v = res
        st_.fail({"kind": "conc-random", "program": prog, "schedule": sched}, v.message, v.signature)
    st_.extra["conc_random_executions"] = count[0]
    return st_


def replay(case):
    harness.ensure_lines(LINES)
    prog = case["program"]
    try:
        if case["kind"] == "conc-prefix":
            r, s = harness.execute(make_main(prog), prefix=case["prefix"] or [])
        else:
            fr, free = case["schedule"]
            r, s = harness.execute_random(make_main(prog), ([tuple(x) for x in fr], free))
        check(prog, r, s)
    except Violation as v:
        return [runner.Failure(case, v.message, v.signature)]
    return []
