"""C04 - queued events reach each registered handler exactly once, in order, and no one else.

Engine E2: the real BaseObserver/EventDispatcher/EventQueue with scripted emitters (props/obsprog.py) under
generated schedules with line-level scheduling points in api.py, bricks.py, queue.py, utils/__init__.py.
"""

from __future__ import annotations

from hypothesis import strategies as st

from props import obsprog
from vlib import runner
from vlib.dsched import explore, harness
from vlib.runner import Stats, Violation

ID = "C04"
LEVEL = "exploration"
DESIGN_REF = "DESIGN.md §3.2, §4 C04"
RULE = (
    "cases = (client program: 1-3 watches incl. equal-key schedules, 1-3 handlers some calling the API re-entrantly at "
    "their k-th callback, scripted emitters with unique events and deliberate adjacent duplicates, 0-2 API threads with "
    "1-3 calls from schedule/unschedule/add_handler_for_watch/remove_handler_for_watch/unschedule_all, in one program of "
    "four a second running observer of the same process on the same paths with a handler of its own; schedule).  "
    "Exhaustive: DFS with <= k preemptions (k=1 quick, 2 thorough) over 8 fixed programs; random: Hypothesis programs x "
    "random schedules.  non-trivial = >= 1 preemption taken and >= 1 registry mutation (API call from a thread or a "
    "handler) overlapping the event stream; distinct = digest of (program, schedule decisions)"
)
ASSUMPTIONS = [
    "substitute threading/queue primitives of vlib/dsched (differential-tested in setup); preemption granularity = source lines of api.py, bricks.py, queue.py, utils/__init__.py plus every primitive operation",
    "history oracle: calls have invoke/return logical times; a callback is allowed iff some registration was invoked before it and is not definitely followed by a removal that returned before it; completeness only for (handler, watch) pairs registered continuously from before the event was queued until quiescence; an occurrence equal to the immediately preceding queued item may be coalesced",
]


def check(prog, r, s):
    v = harness.basic_verdict(r)
    if v:
        raise Violation(f"{v[1]} (program {prog})", v[0])
    h = obsprog.History(s.log, prog)
    # (1) never more callbacks than queued occurrences
    qcount = {}
    for _, path, eid, inst in h.queued:
        qcount[(path, eid)] = qcount.get((path, eid), 0) + 1
    ccount = {}
    for seq, hid, path, eid in h.cbs:
        ccount[(hid, path, eid)] = ccount.get((hid, path, eid), 0) + 1
        if (path, eid) not in qcount:
            raise Violation(f"handler {hid} received an event that was never queued: {path}/e{eid}", "invented-event")
    for (hid, path, eid), n in ccount.items():
        if n > qcount[(path, eid)]:
            raise Violation(f"handler {hid} received {path}/e{eid} {n} times, queued {qcount[(path, eid)]} times (program {prog})", "duplicate-delivery")
    # (2) order per handler and watch
    for hid in range(h.nh):
        for path in h.paths:
            qseq = [eid for _, p, eid, _ in h.queued if p == path]
            dseq = [eid for _, hh, p, eid in h.cbs if hh == hid and p == path]
            it = iter(qseq)
            if not all(any(x == y for y in it) for x in dseq):
                raise Violation(f"handler {hid} received events of {path} out of queue order: delivered {dseq}, queued {qseq} (program {prog})", "order")
    # (3) only registered handlers
    for seq, hid, path, eid in h.cbs:
        if not h.callback_allowed(hid, path, seq):
            raise Violation(
                f"handler {hid} was called for {path}/e{eid} at t={seq} although it was not registered for that watch at that time "
                f"(registrations {h.registrations(hid, path)}, removals {h.removals(hid, path)}; program {prog})",
                "unregistered-delivery",
            )
    # (4) completeness
    end = h.quiescent or float("inf")
    qs = sorted(h.queued)
    must = 0
    for i, (q, path, eid, inst) in enumerate(qs):
        if not h.running_at(q):
            continue
        dup_of_prev = i > 0 and qs[i - 1][1] == path and qs[i - 1][2] == eid
        for hid in range(h.nh):
            if h.continuously_registered(hid, path, q, end):
                must += 1
                n = ccount.get((hid, path, eid), 0)
                need = qcount[(path, eid)]
                # Coalescing: an occurrence equal to the immediately preceding one of the same watch MAY be dropped while
                # that one is still undelivered.  Required deliveries are counted conservatively: the first occurrence of
                # every run of equal occurrences, plus every further occurrence that was queued after all deliveries
                # required so far had already reached this handler (its twin cannot be "still undelivered" then).
                own = [(q2, e2) for q2, p2, e2, _ in qs if p2 == path]
                cb_times = sorted(sq for sq, hh, pp, ee in h.cbs if hh == hid and pp == path and ee == eid)
                runs = 0
                for j, (q2, e2) in enumerate(own):
                    if e2 != eid:
                        continue
                    first_of_run = j == 0 or own[j - 1][1] != eid
                    if first_of_run or sum(1 for c in cb_times if c < q2) >= runs:
                        runs += 1
                all_must = all(h.running_at(q2) and h.continuously_registered(hid, path, q2, end) for q2, p2, e2, _ in qs if p2 == path and e2 == eid)
                if n == 0 or (all_must and n < runs):
                    raise Violation(
                        f"event {path}/e{eid} queued at t={q} was delivered {n} time(s) to handler {hid}, which was registered for that watch from before "
                        f"until quiescence (queued {need}x, {runs} deliveries required, watch's stream {[e for _, e in own]}; program {prog})",
                        "lost-delivery",
                    )
    # (6) the final state is the state of some linearization of the API calls
    msg = obsprog.final_state_violation(h)
    if msg:
        raise Violation(msg + f" (program {prog})", "final-state-not-linearizable")
    mut = sum(1 for c in h.calls.values() if c["who"] != "main" and c["form"][0] not in ("start", "stop", "join"))
    cl = []
    if r.preemptions:
        cl.append(f"preemptions={min(r.preemptions, 3)}")
    if mut:
        cl.append("registry-mutation-during-stream")
    if any(c["who"].startswith("handler") for c in h.calls.values()):
        cl.append("reentrant-call")
    if must:
        cl.append("must-deliver-pairs")
    if prog.get("second_observer"):
        cl.append("second-observer-in-process")
    return bool(r.preemptions and mut), cl


def P(paths, scripts, handlers, initial, threads):
    return {"paths": paths, "scripts": scripts, "handlers": handlers, "initial": initial, "threads": threads}


FIXED = [
    P(["/p0"], {"/p0": [0, 1, 2]}, [{}, {}], [["schedule", 0, 0], ["schedule", 1, 0]], [[["remove", 1, 0]]]),
    P(["/p0", "/p1"], {"/p0": [0, 1], "/p1": [0, 1]}, [{}, {}], [["schedule", 0, 0], ["schedule", 1, 1]], [[["unschedule", 0], ["schedule", 1, 0]]]),
    P(["/p0"], {"/p0": [0, 0, 1]}, [{"reentrant": {"at": 1, "call": ["remove", 1, 0]}}, {}], [["schedule", 0, 0], ["schedule", 1, 0]], []),
    P(["/p0"], {"/p0": [0, 1, 2]}, [{"reentrant": {"at": 2, "call": ["unschedule", 0]}}], [["schedule", 0, 0]], [[["add", 0, 0]]]),
    P(["/p0", "/p1"], {"/p0": [0, 1], "/p1": [0]}, [{}, {"reentrant": {"at": 1, "call": ["schedule", 1, 0]}}], [["schedule", 0, 0], ["schedule", 1, 1]], [[["unschedule_all"]]]),
    P(["/p0"], {"/p0": [0, 1]}, [{}, {}, {}], [["schedule", 0, 0]], [[["add", 1, 0]], [["add", 2, 0], ["remove", 0, 0]]]),
    P(["/p0", "/p1"], {"/p0": [0, 1, 0], "/p1": [0, 0, 1]}, [{}], [["schedule", 0, 0], ["schedule", 0, 1]], []),
    # a second observer in the same process watches the same path
    dict(P(["/p0"], {"/p0": [0, 1, 2]}, [{}, {}], [["schedule", 0, 0]], [[["add", 1, 0]]]), second_observer=True),
]

NSH = 16
PROGRAMS = obsprog.programs()
MAXRUNS = {"quick": 1500, "thorough": 40000}


def shards(tier, seed):
    return [("dfs", tier, seed, i) for i in range(NSH)] + [("rand", tier, seed, i) for i in range(NSH)]


def run_shard(spec, *, mod=None):
    import sys

    mod = mod or sys.modules[__name__]
    kind, tier, seed, i = spec
    harness.ensure_lines(obsprog.LINES)
    st_ = Stats()
    if kind == "dfs":
        bound = 1 if tier == "quick" else 2
        st_.exhaustive = True
        total = 0
        for pi, prog in enumerate(mod.FIXED):
            main = obsprog.make_main(prog)

            def rw(prefix, prog=prog, main=main, pi=pi):
                r, s = harness.execute(main, prefix=prefix)
                chosen = [d[2] for d in r.decisions]
                try:
                    nt, cl = mod.check(prog, r, s)
                except Violation as v:
                    v.prefix = chosen
                    raise
                st_.case(["dfs", pi, chosen], nt, cl + [f"program{pi}"], sample={"program": prog, "prefix": chosen} if st_.evaluations % 300 == 0 else None)
                return r.decisions

            try:
                runs, done = explore.dfs(rw, bound, shard=(i, NSH), max_runs=mod.MAXRUNS[tier])
            except Violation as v:
                st_.fail({"kind": "prefix", "program": prog, "prefix": getattr(v, "prefix", None)}, v.message, v.signature)
                st_.exhaustive = False
                continue
            total += runs
            st_.exhaustive = st_.exhaustive and done
        st_.extra["dfs_schedules"] = total
        st_.notes.append(f"DFS preemption bound {bound}")
        return st_
    count = [0]

    def body(case):
        prog, sched = case
        count[0] += 1
        r, s = harness.execute_random(obsprog.make_main(prog), sched)
        nt, cl = mod.check(prog, r, s)
        st_.case(["rand", prog, [d[2] for d in r.decisions]], nt, cl, sample={"program": prog, "schedule": sched} if count[0] % 150 == 1 else None)

    res = runner.hyp_search(st.tuples(mod.PROGRAMS, harness.SCHEDULES), body, seed=runner.derive_seed(seed, mod.ID, i), max_examples=250 if tier == "quick" else 4000)
    if res is not None:
        (prog, sched), v = res
        st_.fail({"kind": "random", "program": prog, "schedule": sched}, v.message, v.signature)
    st_.extra["random_executions"] = count[0]
    return st_


def replay(case, *, mod=None):
    import sys

    mod = mod or sys.modules[__name__]
    harness.ensure_lines(obsprog.LINES)
    prog = case["program"]
    try:
        if case["kind"] == "prefix":
            r, s = harness.execute(obsprog.make_main(prog), prefix=case["prefix"] or [])
        else:
            fr, free = case["schedule"]
            r, s = harness.execute_random(obsprog.make_main(prog), ([tuple(x) for x in fr], free))
        mod.check(prog, r, s)
    except Violation as v:
        return [runner.Failure(case, v.message, v.signature)]
    return []
