"""C11 - an event filter only removes events; it never alters the rest of the stream.

One observer, two watches on the same root: unfiltered and filtered (distinct watch keys => two emitters, two
inotify instances, identical native streams).  Operations are issued one at a time; after each a fixed
sentinel sequence touching every event class is run and both logs are cut at the same logical event
(the last sentinel event passing the filter).  Oracle per window:
    collapse(filtered log) == collapse([e for e in unfiltered log if isinstance(e, filter classes)]).
"""

from __future__ import annotations

import os
import time

from hypothesis import strategies as st

from props import c01
from vlib import fsops, runner
from vlib.runner import Stats, Violation

ID = "C11"
LEVEL = "exploration"
DESIGN_REF = "DESIGN.md §4 C11"
RULE = (
    "cases = (filter drawn from the 11 concrete event classes + FileSystemEvent + FileSystemMovedEvent: every singleton "
    "and pair in the exhaustive part, random larger subsets in the Hypothesis part; recursive flag; normal/full emitter; "
    "history of 1-6 single ops with emphasis on boundary moves and on directories that arrive after the start; symbolic "
    "links to outside directories in the root, in a directory renamed later and in a tree moved in, with file and "
    "directory activity in the link targets in every window, follow_symlink on or off for both watches).  "
    "non-trivial = a window contains a boundary move or an op inside a directory that arrived after the start, and the "
    "filter is not FileSystemEvent (total); distinct = digest of the case"
)
ASSUMPTIONS = c01.ASSUMPTIONS[:2] + [
    "two inotify instances on the same directory receive identical native streams when operations are issued one at a time",
    "window cut: both logs are cut right after the last event of a fixed sentinel sequence (unique names) that passes the filter; the filtered handler not reaching that event within 10 s while the unfiltered one has it counts as a missing event",
    "adjacent identical events are compared after collapsing runs in both streams",
]
WALL_CAP = c01.WALL_CAP

CONCRETE = [
    "FileCreatedEvent", "FileDeletedEvent", "FileModifiedEvent", "FileMovedEvent", "FileClosedEvent", "FileClosedNoWriteEvent",
    "FileOpenedEvent", "DirCreatedEvent", "DirDeletedEvent", "DirModifiedEvent", "DirMovedEvent",
]  # fmt: skip
BASES = ["FileSystemEvent", "FileSystemMovedEvent"]


def collapse(evs):
    out = []
    for e in evs:
        if not out or out[-1] != e:
            out.append(e)
    return out


ATTR_DIR = fsops.SENT + "A"


def sentinel_ops(n):
    # (the attribute change is made on a directory that both watches have known from their start, not on the directory
    # just created: an attribute change of a directory is reported through its parent's watch and through its own, and
    # whether the own watch of a brand-new directory is already in place is a race the two emitters may lose differently)
    sd, sd2, sf, sf2, sg, sd3 = (f"{fsops.SENT}{n}{x}" for x in ("d", "e", "f", "g", "h", "i"))
    return [
        ("mkdir", sd), ("rename", sd, sd2), ("rmdir", sd2), ("mkdir", sd3), ("chmod", ATTR_DIR),
        ("create", sf), ("write", sf), ("rename", sf, sf2), ("unlink", sf2), ("create", sg), ("create", sg + "2"), ("read", sg),
    ], sg  # fmt: skip


def run_case(case):
    from watchdog import events as ev

    cfg = dict(case["cfg"])
    flt_names = case["filter"]
    classes = tuple(getattr(ev, n) for n in flt_names)
    cfg["event_filter"] = None
    s = fsops.Session(cfg, case["init"])
    try:
        rec = bool(cfg.get("recursive", True))
        os.mkdir(os.path.join(s.root, ATTR_DIR))
        s.drain()  # the first watch knows the directory; the second one finds it in its initial walk
        frec = fsops.Recorder()
        fsops.with_instances(lambda: s.obs.schedule(frec.make_handler(), s.given, recursive=rec, event_filter=list(classes), **({"follow_symlink": True} if cfg.get("follow_symlink") else {})))
        with s.rec.cond:
            upos = len(s.rec.events)  # what the first watch saw before the second one existed is not compared
        fpos = 0
        nwin = 0
        info = {"windows": 0}
        ops = [op for b in case["bursts"] for op in b if op[0] != "sleep"]
        link_slots = sorted({slot for _, slot in cfg.get("links", [])})
        waiting = {}  # out slot that will be moved in -> targets of the links inside it
        for rel, slot in case.get("slot_links", []):
            # a link inside a pre-built tree that will be moved in later; its target sees activity only from the window
            # after the one in which the tree arrived (pacing: the watches of an arriving tree are set up first)
            os.makedirs(os.path.join(s.out, slot), exist_ok=True)
            os.symlink(os.path.join(s.out, slot), os.path.join(s.out, rel))
            waiting.setdefault(rel.split("/")[0], []).append(slot)
        arm_next = []
        for wi, op in enumerate(ops + [None]):
            link_slots = sorted(set(link_slots) | set(arm_next))
            arm_next = []
            if op is not None:
                s.run_burst([op])
                if op[0] == "move_in" and op[1] in waiting:
                    arm_next = waiting.pop(op[1])
            for slot in link_slots:
                # activity in the targets of the links: outside the tree, a watch that does not follow links sees none of it
                fsops._touch(os.path.join(s.out, slot, f"t{wi}"))
                os.mkdir(os.path.join(s.out, slot, f"u{wi}"))
                if os.path.exists(os.path.join(s.out, slot, f"t{wi - 1}")):
                    os.unlink(os.path.join(s.out, slot, f"t{wi - 1}"))
            sops, sg = sentinel_ops(wi)
            for sop in sops:
                fsops.exec_op(sop, s.root, s.out)

            def is_end(e, sg=sg):
                return isinstance(e, ev.FileClosedNoWriteEvent) and s.norm(e.src_path) == sg

            # 1. unfiltered stream reaches the end of the sentinel sequence
            s._scan = upos
            i_end = s._wait_for(is_end, 30)
            errs = s.thread_errors()
            if errs:
                raise Violation(f"library thread died: {errs[0][:3]} after {op}", "thread-died:" + errs[0][2].split("(")[0])
            if i_end is None:
                raise runner.Inconclusive(f"unfiltered watch did not report the sentinel sequence after {op}")
            with s.rec.cond:
                uwin_all = s.rec.events[upos : i_end + 1]
            prefix = f"{fsops.SENT}{wi}"

            def sentinel_caused(e):
                for p in (e.src_path, e.dest_path):
                    if p:
                        r = s.norm(p)
                        if r is not None and (r.startswith(prefix) or r == ATTR_DIR):
                            return True
                return False

            # 2. the last sentinel-caused event passing the filter = cut point
            cut = None
            for j in range(len(uwin_all) - 1, -1, -1):
                if sentinel_caused(uwin_all[j]) and isinstance(uwin_all[j], classes):
                    cut = j
                    break
            if cut is None:
                raise runner.Inconclusive(f"no sentinel event passes filter {flt_names}")
            marker = uwin_all[cut]
            uwin = uwin_all[: cut + 1]
            # occurrences of the marker in the filtered view, adjacent repeats counted once (queue coalescing)
            need = sum(1 for e in collapse([e for e in uwin if isinstance(e, classes)]) if e == marker)
            upos = upos + cut + 1
            # 3. the filtered stream must reach the same event
            deadline = time.monotonic() + 10
            fcut = None
            while True:
                with frec.cond:
                    cnt = 0
                    for j in range(fpos, len(frec.events)):
                        if frec.events[j] == marker and (j == fpos or frec.events[j - 1] != marker):
                            cnt += 1
                            if cnt == need:
                                fcut = j
                                break
                    if fcut is not None:
                        fwin = frec.events[fpos : fcut + 1]
                        break
                    left = deadline - time.monotonic()
                    if left <= 0:
                        fwin = frec.events[fpos:]
                        break
                    frec.cond.wait(min(left, 0.5))
            exp = collapse([e for e in uwin if isinstance(e, classes)])
            if fcut is None:
                got = collapse(fwin)
                missing = [e for e in exp if e not in got]
                raise Violation(
                    f"filter {flt_names} recursive={rec} full={bool(cfg.get('full'))}: after op {op} the filtered watch never delivered {marker!r} "
                    f"(the unfiltered watch did). first missing: {missing[:3]}; filtered window: {got[:6]}",
                    "filtered-missing:" + type(missing[0] if missing else marker).__name__,
                )
            fpos = fcut + 1
            got = collapse(fwin)
            if got != exp:
                missing = [e for e in exp if e not in got]
                extra = [e for e in got if e not in exp]
                sig = "filtered-missing:" + type(missing[0]).__name__ if missing else ("filtered-extra:" + type(extra[0]).__name__ if extra else "filtered-order")
                raise Violation(
                    f"filter {flt_names} recursive={rec} full={bool(cfg.get('full'))}: window after op {op}: filtered stream differs. "
                    f"missing {missing[:4]}; extra {extra[:4]}; expected {len(exp)} events, got {len(got)}",
                    sig,
                )
            info["windows"] += 1
        return info
    finally:
        s.close()


def classes_of(case):
    m = fsops.model_after_init(case["init"])
    start_dirs = {v[1] for p, v in m.tree.items() if v[0] == "d"}
    nt = False
    cl = set()
    for b in case["bursts"]:
        for op in b:
            k = op[0]
            if k in ("move_in", "move_out"):
                nt = True
                cl.add("boundary-move")
            paths = [x for x in op[1:3] if isinstance(x, str)]
            if k == "move_in":
                paths = [op[2]]
            for p in paths:
                par = fsops.parent(p)
                if par in m.tree and m.tree[par][1] not in start_dirs:
                    nt = True
                    cl.add("op-inside-post-start-dir")
            fsops.apply_op(m, tuple(op))
    f = case["filter"]
    if f == ["FileSystemEvent"] or "FileSystemEvent" in f:
        nt = False
        cl.add("total-filter")
    cl.add(f"filter-size={min(len(f), 3)}{'+' if len(f) >= 3 else ''}")
    if any(x in BASES for x in f):
        cl.add("base-class-in-filter")
    cl.add("recursive" if case["cfg"]["recursive"] else "non-recursive")
    cl.add("full" if case["cfg"].get("full") else "normal")
    if case["cfg"].get("links"):
        cl.add("symlinked-directory-at-start")
    if case["cfg"].get("follow_symlink"):
        cl.add("follow_symlink")
    if case.get("slot_links"):
        cl.add("symlinked-directory-moved-in")
    return nt, sorted(cl)


# a fixed history that exercises creation, writes, moves across the boundary and a directory that arrives later
FIXED = {
    "init": [["mkdir", "a"], ["create", "a/b"], ["create", "b"], ["mkdir", "ab"], ["prebuild", "o1", [["a", "f"], ["b", "d"]], "d"]],
    "bursts": [[["mkdir", "c"]], [["create", "c/a"]], [["move_in", "o1", "c/b"]], [["write", "c/b/a"]], [["rename", "b", "c/c"]], [["rename", "ab", "c/ab"]], [["move_out", "a", "o9"]], [["unlink", "c/a"]], [["rmtree", "c"]]],
    # links to directories outside the tree: in the root and in a directory that is renamed later (both present at
    # start), and inside the tree that is moved in
    "links": [["L0", "lt0"], ["ab/L1", "lt1"]],
    "slot_links": [["o1/b/L2", "lt2"]],
}


def exhaustive_filters():
    allc = CONCRETE + BASES
    for c in allc:
        yield [c]
    for i, a in enumerate(allc):
        for b in allc[i + 1 :]:
            yield [a, b]


@st.composite
def cases(draw, tier):
    cfg = {"recursive": draw(st.sampled_from([True, True, False])), "full": draw(st.sampled_from([False, False, True]))}
    if draw(st.booleans()):
        cfg["links"] = [["L0", "lt0"]]
        cfg["follow_symlink"] = draw(st.booleans())  # both watches follow the links (or both do not)
    flt = draw(st.lists(st.sampled_from(CONCRETE + BASES), min_size=1, max_size=5, unique=True))
    opts = {"max_bursts": 5, "max_ops": 1, "sleeps": False, "makedirs": False, "weights": {"mkdir": 6, "move_in": 8, "move_out": 6, "create": 5, "write": 3, "rename": 6, "read": 1, "chmod": 2}}
    h = draw(fsops.histories(opts))
    return {"cfg": cfg, "filter": sorted(flt), "init": h["init"], "bursts": h["bursts"]}


NSH = 16


def shards(tier, seed):
    return [(k, tier, seed, i) for i in range(NSH) for k in ("exh", "hyp")]


def run_shard(spec):
    kind, tier, seed, i = spec
    st_ = Stats()
    windows = [0]
    if kind == "exh":
        st_.exhaustive = True
        n = 0
        k = -1
        for flt in exhaustive_filters():
            for rec in (True, False):
                for full in (False, True):
                    k += 1
                    if k % NSH != i:
                        continue
                    if tier == "quick" and len(flt) == 2 and (k // NSH) % 4 != seed % 4:
                        st_.exhaustive = False
                        continue
                    case = {"cfg": {"recursive": rec, "full": full, "links": FIXED["links"], "follow_symlink": k % 3 == 0}, "filter": flt, "init": FIXED["init"], "bursts": FIXED["bursts"], "slot_links": FIXED["slot_links"]}
                    n += 1
                    try:
                        info = run_case(case)
                    except Violation as v:
                        st_.fail(case, v.message, v.signature)
                        st_.exhaustive = False
                        continue
                    windows[0] += info["windows"]
                    nt, cl = classes_of(case)
                    st_.case(case, nt, cl, sample=case if n % 25 == 1 else None)
        st_.extra["filter_cells"] = n
        st_.extra["windows_compared"] = windows[0]
        return st_
    count = [0]

    def body(case):
        count[0] += 1
        info = run_case(case)
        windows[0] += info["windows"]
        nt, cl = classes_of(case)
        st_.case(case, nt, cl, sample=case if count[0] % 25 == 1 else None)

    res = runner.hyp_search(cases(tier), body, seed=runner.derive_seed(seed, ID, i), max_examples=40 if tier == "quick" else 700, shrink=False)
    if res is not None:
        case, v = res
        st_.fail(case, v.message, v.signature)
    st_.extra["windows_compared"] = windows[0]
    return st_


def replay(case):
    for _ in range(2):
        try:
            run_case(case)
        except Violation as v:
            return [runner.Failure(case, v.message, v.signature)]
    return []
