"""C13 - the registry stays consistent over any call sequence; failed calls leave no trace.

Model-based test (reference: dict watch-key -> handler set + running flag) of the real BaseObserver with a
scripted emitter class whose construction or start can be made to fail inside schedule().  Call sequences are
generated (Hypothesis lists = stateful testing with the whole history as one shrinkable value; exhaustive for
short sequences over a small universe) and executed single-threaded under the deterministic scheduler with
the default schedule, so dispatcher and emitters are deterministic and run to quiescence after every call.
"""

from __future__ import annotations

import itertools

from hypothesis import strategies as st

from vlib import runner
from vlib.dsched import core, harness, loader
from vlib.runner import Stats, Violation

ID = "C13"
LEVEL = "fault_enumeration"
DESIGN_REF = "DESIGN.md §4 C13"
RULE = (
    "cases = sequences of schedule / schedule-with-fault(new|start) / unschedule / add_handler_for_watch / "
    "remove_handler_for_watch / unschedule_all / start / stop over 2 paths x recursive flag x 4 filters - none, empty, created, modified - (16 watches, equal "
    "ones on purpose) and 3 handlers; exhaustive part: every sequence of length <= 3 (quick) / 4 (thorough) over 1 path, 2 "
    "handlers with the emitter failure at every position and of both kinds; random part: Hypothesis sequences up to 14 "
    "calls.  After every call: emitters == model's watches, and a created and a modified marker queued through every live "
    "emitter reach exactly the model's handler set if the watch's filter admits them and nobody otherwise; plus the watch "
    "equality law: ObservedWatch objects are equal, and hash equal, iff (path, recursive flag, filter as a set) agree.  non-trivial = a failed schedule() followed by a successful one for an equal watch, "
    "or >= 2 equal-key schedules, or an unschedule with >= 2 live watches; distinct = the sequence"
)
ASSUMPTIONS = [
    "single application thread, default (non-preemptive) schedule of vlib/dsched, 2 virtual seconds of quiescence after every call (interleavings are C04-C06's business)",
    "add/remove_handler_for_watch are generated for scheduled watches only; unschedule of an unknown watch and removal of an unknown handler must raise KeyError and change nothing",
    "emitter failures are injected in schedule() only (construction, or start when the observer thread is alive), as the statement says",
]

PATHS = ["/p0", "/p1"]


FILTERS = (None, "empty", "created", "modified")


def specs(npaths=2, recursive=(False, True), filters=FILTERS):
    return [(p, r, f) for p in PATHS[:npaths] for r in recursive for f in filters]


def run_sequence(seq, nh=3):
    """seq: list of calls: ["schedule", h, spec_idx, fault|None] / ["unschedule", spec_idx] / ["add", h, spec_idx] /
    ["remove", h, spec_idx] / ["unschedule_all"] / ["start"] / ["stop"].  Raises Violation."""
    W = loader.load()
    api, ev = W.api, W.events
    tm = core.fake_time
    SP = specs()

    def main(s):
        fault = [None]

        class Em(api.EventEmitter):
            def __init__(self, event_queue, watch, *, timeout=1.0, event_filter=None):
                if fault[0] == "new":
                    fault[0] = "fired"
                    raise OSError(28, "scripted emitter: construction failed")
                super().__init__(event_queue, watch, timeout=timeout, event_filter=event_filter)

            def on_thread_start(self):
                if fault[0] == "start":
                    fault[0] = "fired"
                    raise OSError(2, "scripted emitter: start failed")

            def queue_events(self, timeout):
                self.stopped_event.wait(timeout)

        class H(ev.FileSystemEventHandler):
            def __init__(self, hid):
                self.hid = hid
                self.got = []

            def __hash__(self):
                return 500 + self.hid

            def __eq__(self, o):
                return self is o

            def on_any_event(self, event):
                self.got.append(event.src_path)

        obs = api.BaseObserver(Em, timeout=1.0)
        hs = [H(i) for i in range(nh)]
        model = {}
        started = stopped = False
        marker = itertools.count()
        info = {"failed_then_ok": False, "equal_key": False, "unsched_with_2": False}
        failed_keys = set()

        FLT = {None: None, "empty": [], "created": [ev.FileCreatedEvent], "modified": [ev.FileModifiedEvent]}
        PASSES = {None: {"c", "m"}, "empty": set(), "created": {"c"}, "modified": {"m"}}  # which marker kinds a filter lets through

        def flt(f):
            return FLT[f]

        def fkind(event_filter):
            if event_filter is None:
                return None
            return {frozenset(): "empty", frozenset([ev.FileCreatedEvent]): "created", frozenset([ev.FileModifiedEvent]): "modified"}[frozenset(event_filter)]

        def key(si):
            p, r, f = SP[si]
            return api.ObservedWatch(p, recursive=r, event_filter=flt(f))

        for ci, call in enumerate(seq):
            k = call[0]
            desc = f"call #{ci} {call} of sequence {seq}"
            running = started and not stopped
            try:
                if k == "schedule":
                    _, h, si, flt_kind = call
                    w = SP[si]
                    fault[0] = flt_kind
                    needs = w not in model
                    expect_fail = bool(flt_kind) and needs and (flt_kind == "new" or running)
                    try:
                        p, r, f = SP[si]
                        obs.schedule(hs[h], p, recursive=r, event_filter=flt(f))
                        if expect_fail:
                            raise Violation(f"{desc}: schedule() was expected to raise (emitter {flt_kind} failure) but returned", "fault-not-propagated")
                        if w in model:
                            info["equal_key"] = True
                        if w in failed_keys:
                            info["failed_then_ok"] = True
                        model.setdefault(w, set()).add(h)
                    except OSError:
                        if not expect_fail:
                            raise Violation(f"{desc}: schedule() raised OSError without an injected failure", "spurious-oserror") from None
                        failed_keys.add(w)
                    finally:
                        fault[0] = None
                elif k == "unschedule":
                    w = SP[call[1]]
                    try:
                        obs.unschedule(key(call[1]))
                        if w not in model:
                            raise Violation(f"{desc}: unschedule() of a watch that is not scheduled did not raise KeyError", "no-keyerror")
                        if len(model) >= 2:
                            info["unsched_with_2"] = True
                        del model[w]
                    except KeyError:
                        if w in model:
                            raise Violation(f"{desc}: unschedule() of a scheduled watch raised KeyError", "spurious-keyerror") from None
                elif k == "add":
                    w = SP[call[2]]
                    if w in model:
                        obs.add_handler_for_watch(hs[call[1]], key(call[2]))
                        model[w].add(call[1])
                elif k == "remove":
                    w = SP[call[2]]
                    if w in model:
                        try:
                            obs.remove_handler_for_watch(hs[call[1]], key(call[2]))
                            if call[1] not in model[w]:
                                raise Violation(f"{desc}: removing a handler that is not registered did not raise KeyError", "no-keyerror")
                            model[w].discard(call[1])
                        except KeyError:
                            if call[1] in model[w]:
                                raise Violation(f"{desc}: removing a registered handler raised KeyError", "spurious-keyerror") from None
                elif k == "unschedule_all":
                    obs.unschedule_all()
                    model.clear()
                elif k == "start":
                    if not started and not stopped:
                        obs.start()
                        started = True
                elif k == "stop":
                    # at any time, also before start() and repeatedly: it empties the registry every time
                    obs.stop()
                    stopped = True
                    model.clear()
            except Violation:
                raise
            tm.sleep(2.0)
            # ---- invariant
            ems = list(obs.emitters)

            def mkey(wt):
                # the model's own notion of a distinct watch: (path, recursive flag, filter), independent of the library's __eq__
                return (wt.path, wt.is_recursive, fkind(wt.event_filter))

            em_keys = [mkey(e.watch) for e in ems]
            if len(set(em_keys)) != len(em_keys):
                raise Violation(f"after {desc}: two emitters for equal watches: {em_keys}", "duplicate-emitter")
            if set(em_keys) != set(model):
                raise Violation(f"after {desc}: emitters {sorted(map(repr, em_keys))} but scheduled watches are {sorted(map(repr, model))}", "emitters-differ-from-model")
            if started and not stopped:
                for e in ems:
                    if not e.is_alive():
                        raise Violation(f"after {desc}: emitter of {e.watch} is not running although the observer runs", "emitter-not-running")
                n = next(marker)
                order = sorted(ems, key=lambda e: repr(e.watch))
                tag = {id(e): j for j, e in enumerate(order)}
                for e in order:
                    # one created and one modified marker: the watch's filter decides which of them its handlers see
                    e.queue_event(ev.FileCreatedEvent(f"{e.watch.path}/c{n}_{tag[id(e)]}"))
                    e.queue_event(ev.FileModifiedEvent(f"{e.watch.path}/m{n}_{tag[id(e)]}"))
                tm.sleep(2.0)
                for e in ems:
                    for mk in ("c", "m"):
                        name = f"{e.watch.path}/{mk}{n}_{tag[id(e)]}"
                        got = {h.hid for h in hs if name in h.got}
                        want = model[mkey(e.watch)] if mk in PASSES[mkey(e.watch)[2]] else set()
                        if got != want:
                            raise Violation(
                                f"after {desc}: the {'created' if mk == 'c' else 'modified'} marker of watch {e.watch} reached handlers {sorted(got)}, "
                                f"the call history and the watch's filter say {sorted(want)}",
                                "marker-routing:" + ("extra" if got - want else "missing"),
                            )
                        cnt = [h.got.count(name) for h in hs if name in h.got]
                        if any(c != 1 for c in cnt):
                            raise Violation(f"after {desc}: marker delivered {cnt} times", "marker-duplicate")
        obs.stop()
        if list(obs.emitters):
            raise Violation(f"after the final stop() of sequence {seq}: emitters {[str(e.watch) for e in obs.emitters]} are still reported", "emitters-differ-from-model")
        if started:
            obs.join()
        return info

    r, s = harness.execute(main, prefix=[])
    v = harness.basic_verdict(r)
    if isinstance(r.main_exc, Violation):
        raise r.main_exc
    if v:
        raise Violation(f"{v[1]} (sequence {seq})", v[0])
    return r.value


def classify(seq, info):
    cl = [k for k, v in info.items() if v]
    if any(c[0] == "schedule" and c[3] for c in seq):
        cl.append("fault-injected")
    return bool(info["failed_then_ok"] or info["equal_key"] or info["unsched_with_2"]), cl


# ----------------------------------------------------------------------------- generators


def small_alphabet():
    """1 path, non-recursive, no filter (spec index 0), 2 handlers."""
    a = []
    for h in (0, 1):
        a += [["schedule", h, 0, None], ["schedule", h, 0, "new"], ["schedule", h, 0, "start"], ["add", h, 0], ["remove", h, 0]]
    a += [["unschedule", 0], ["unschedule_all"], ["start"], ["stop"]]
    return a


@st.composite
def sequences(draw):
    nspec = len(specs())
    call = st.one_of(
        st.tuples(st.just("schedule"), st.integers(0, 2), st.integers(0, nspec - 1), st.sampled_from([None, None, None, "new", "start"])),
        st.tuples(st.just("unschedule"), st.integers(0, nspec - 1)),
        st.tuples(st.just("add"), st.integers(0, 2), st.integers(0, nspec - 1)),
        st.tuples(st.just("remove"), st.integers(0, 2), st.integers(0, nspec - 1)),
        st.just(("unschedule_all",)),
        st.just(("start",)),
        st.just(("stop",)),
    ).map(list)
    seq = draw(st.lists(call, min_size=1, max_size=14))
    if draw(st.integers(0, 2)) > 0:
        seq.insert(draw(st.integers(0, min(2, len(seq)))), ["start"])
    return seq


NSH = 16


def watch_equality_law(st_):
    """ObservedWatch objects are equal (==, !=, hash, use as dict key) iff path, recursive flag and filter-as-a-set agree."""
    import pathlib

    from watchdog import events as ev
    from watchdog.observers.api import ObservedWatch

    A, B, C = ev.FileCreatedEvent, ev.FileModifiedEvent, ev.FileSystemEvent
    filters = [(None, None), ([], ()), ((), ()), ([A], (A,)), ((A,), (A,)), ([A, A], (A,)), ([B], (B,)), ([A, B], (A, B)), ([B, A], (A, B)), ({A, B}, (A, B)), ([C], (C,))]
    paths = [("/p0", "/p0"), (pathlib.Path("/p0"), "/p0"), ("/p1", "/p1"), ("/p", "/p")]  # other spellings of one directory are C19's business
    ws = []
    for p, pk in paths:
        for r in (False, True):
            for f, fk in filters:
                # follow_symlink is an option of the watch, not part of what makes two watches distinct
                for fs in ((False, True) if (p, f) in (("/p0", None), ("/p0", [A])) else (False,)):
                    ws.append((ObservedWatch(p, recursive=r, event_filter=f, follow_symlink=fs), (pk, r, None if fk is None else frozenset(fk)), (p, r, f, fs)))
    for w1, k1, d1 in ws:
        for w2, k2, d2 in ws:
            same = k1 == k2
            nt = (k1[0] == k2[0] and k1[1] == k2[1]) or same
            if (w1 == w2) != same or (w1 != w2) == same:
                raise Violation(f"ObservedWatch{d1} == ObservedWatch{d2} is {w1 == w2}, != is {w1 != w2}; (path, recursive, filter) are {'equal' if same else 'different'}", "watch-equality")
            if same and hash(w1) != hash(w2):
                raise Violation(f"ObservedWatch{d1} and ObservedWatch{d2} are equal but hash differently", "watch-hash")
            if ({w1: 1}.get(w2) == 1) != same or (w2 in {w1}) != same:
                raise Violation(f"ObservedWatch{d1} used as a dict/set key {'does not find' if same else 'finds'} ObservedWatch{d2}", "watch-as-key")
            st_.case(["law", repr(d1), repr(d2)], nt, ["watch-equality-law", "equal-watches" if same else "distinct-watches"])


def shards(tier, seed):
    return [(k, tier, seed, i) for i in range(NSH) for k in ("exh", "hyp")] + [("law", tier, seed, 0)]


def run_shard(spec):
    kind, tier, seed, i = spec
    harness.ensure_lines(())
    st_ = Stats()
    if kind == "law":
        try:
            watch_equality_law(st_)
        except Violation as v:
            st_.fail({"kind": "law"}, v.message, v.signature)
        return st_
    if kind == "exh":
        L = 3 if tier == "quick" else 4
        st_.exhaustive = True
        n = 0
        alpha = small_alphabet()
        k = -1
        for ln in range(1, L + 1):
            for tail in itertools.product(alpha, repeat=ln):
                for pre in ([], [["start"]]):
                    k += 1
                    if k % NSH != i:
                        continue
                    seq = pre + [list(c) for c in tail]
                    n += 1
                    try:
                        info = run_sequence(seq, nh=2)
                    except Violation as v:
                        st_.fail({"seq": seq, "nh": 2}, v.message, v.signature)
                        st_.exhaustive = False
                        continue
                    nt, cl = classify(seq, info)
                    st_.case(seq, nt, cl, sample={"seq": seq} if n % 500 == 1 else None)
        st_.extra["exhaustive_sequences"] = n
        return st_
    count = [0]

    def body(seq):
        count[0] += 1
        info = run_sequence(seq)
        nt, cl = classify(seq, info)
        st_.case(seq, nt, cl, sample={"seq": seq} if count[0] % 200 == 1 else None)

    res = runner.hyp_search(sequences(), body, seed=runner.derive_seed(seed, ID, i), max_examples=1500 if tier == "quick" else 12000)
    if res is not None:
        seq, v = res
        st_.fail({"seq": seq, "nh": 3}, v.message, v.signature)
    st_.extra["random_sequences"] = count[0]
    return st_


def replay(case):
    harness.ensure_lines(())
    try:
        if case.get("kind") == "law":
            watch_equality_law(Stats())
            return []
        run_sequence(case["seq"], nh=case.get("nh", 3))
    except Violation as v:
        return [runner.Failure(case, v.message, v.signature)]
    return []
