"""C10 - the polling emitter reports exactly the diff of successive snapshots and survives races.

The real PollingEmitter (constructed the way PollingObserverVFS does) is driven synchronously over
vlib.vfs: on_thread_start() then one queue_events(0) per generated tree state.  A fault plan keyed by
(op, path) -- which is every call position of a walk, each path being stat'ed and listed once -- makes
the call fail (ENOENT / ENOTDIR / EACCES) or mutates the tree just before the call (entry deleted /
directory replaced by a file).  Oracle: reference diff of the *effective* trees (rule implemented here).
"""

from __future__ import annotations

import errno
import itertools
import os
import queue

from hypothesis import strategies as st

from vlib import runner, treegen, vfs
from vlib.runner import Stats, Violation

ID = "C10"
LEVEL = "fault_enumeration"
DESIGN_REF = "DESIGN.md §4 C10"
RULE = (
    "cases = (chain of 2-6 virtual tree states, recursive flag, fault plan per poll); exhaustive part: every new "
    "state with <= 3 entries over {a,b}, depth 2, from 3 baseline states, x every (stat|listdir, path) position of "
    "the walk x {ENOENT, ENOTDIR, EACCES, delete-before-call, replace-by-file-before-call} x recursive flag; random "
    "part: Hypothesis chains over {a,b,c}, depth 3, with 0-2 faults per poll; concurrent part (props/c10_conc.py): the "
    "emitter thread on the virtual clock x one change (none/create/delete/modify/move) at a generated time x stop() at a "
    "generated time (also mid-walk) x schedules (DFS with <= k preemptions over 5 fixed programs, random schedules): the "
    "queue holds nothing but the events of that change, each once, all of them if a full poll lay in between.  non-trivial = a poll whose reference "
    "diff has >= 2 entries of different classes, or a fault that changed the effective tree; distinct = digest of the case"
)
ASSUMPTIONS = [
    "sequential parts: PollingEmitter is driven synchronously (on_thread_start + queue_events(0)); concurrent part: the real thread under vlib/dsched, every walk served from the state at its first call (a rename seen half-way by a walk is outside the precondition 'every inode has one path')",
    "effective tree under a fault: failing stat => entry and subtree absent; failing listing (ENOENT/ENOTDIR, or EACCES below the root) => no children, entry present; EACCES on the root listing or any failure of stat(root) => root gone",
    "faults are keyed by (op, path): each path is stat'ed once and listed once per walk, so this enumerates every call position",
]

ERRNOS = {"ENOENT": errno.ENOENT, "ENOTDIR": errno.ENOTDIR, "EACCES": errno.EACCES}
ACTIONS = ["ENOENT", "ENOTDIR", "EACCES", "mut-delete", "mut-file"]
ROOT_GONE = "ROOT_GONE"


def subtree_remove(tree, rel):
    for p in [q for q in tree if q == rel or q.startswith(rel + "/") or rel == ""]:
        del tree[p]


def make_hook(plan):
    """plan: {(op, rel): action}"""

    def hook(v, idx, op, rel):
        act = plan.get((op, rel))
        if act is None:
            return
        v.hits.add((op, rel))
        if act in ERRNOS:
            raise OSError(ERRNOS[act], os.strerror(ERRNOS[act]), vfs.full(rel, v.root))
        if act == "mut-delete":
            subtree_remove(v.tree, rel)
        elif act == "mut-file":
            if rel in v.tree:
                k = v.tree[rel]
                subtree_remove(v.tree, rel)
                if rel != "":
                    v.tree[rel] = ("f",) + tuple(k[1:])
                else:
                    v.tree[rel] = ("f",) + tuple(k[1:])

    return hook


def effective(tree, recursive, plan):
    """Reference: the tree a snapshot must contain, and the tree left behind (mutations applied).
    Returns (effective_tree | ROOT_GONE, tree_after)."""
    tree = dict(tree)

    def apply(op, rel):
        """returns error name or None; applies mutations"""
        act = plan.get((op, rel))
        if act is None:
            return None
        if act in ERRNOS:
            return act
        if act == "mut-delete":
            subtree_remove(tree, rel)
        elif act == "mut-file" and rel in tree:
            k = tree[rel]
            subtree_remove(tree, rel)
            tree[rel] = ("f",) + tuple(k[1:])
        return None

    def do_stat(rel):
        err = apply("stat", rel)
        if err or rel not in tree:
            return None
        return tree[rel]

    def do_list(rel):
        """-> (children names | None when listing failed, errname)"""
        err = apply("listdir", rel)
        if err:
            return None, err
        if rel not in tree:
            return None, "ENOENT"
        if tree[rel][0] != "d":
            return None, "ENOTDIR"
        prefix = rel + "/" if rel else ""
        return sorted(r for r in tree if r != "" and r.startswith(prefix) and "/" not in r[len(prefix) :]), None

    eff = {}
    st0 = do_stat("")
    if st0 is None:
        return ROOT_GONE, tree
    eff[""] = st0

    def walk(rel, is_root):
        kids, err = do_list(rel)
        if kids is None:
            if is_root and err == "EACCES":
                return False
            return True
        entries = []
        for c in kids:
            s = do_stat(c)
            if s is not None:
                eff[c] = s
                entries.append((c, s))
        if recursive:
            for c, s in entries:
                if s[0] == "d":
                    walk(c, False)
        return True

    if not walk("", True):
        return ROOT_GONE, tree
    return eff, tree


def expected_events(prev, new):
    from watchdog import events as ev

    F = vfs.full
    c, d, m, mod = vfs.reference_diff(prev, new)
    nid = {(v[1], v[2]): r for r, v in new.items()}
    out = []  # list of sets of acceptable events (one must be delivered)
    for r in c:
        out.append({(ev.DirCreatedEvent if new[r][0] == "d" else ev.FileCreatedEvent)(F(r))})
    for r in d:
        out.append({(ev.DirDeletedEvent if prev[r][0] == "d" else ev.FileDeletedEvent)(F(r))})
    for a, b in m:
        kinds = {prev[a][0], new[b][0]}
        out.append({(ev.DirMovedEvent if k == "d" else ev.FileMovedEvent)(F(a), F(b)) for k in kinds})
    for r in mod:
        kinds = {prev[r][0], new[nid[(prev[r][1], prev[r][2])]][0]}
        out.append({(ev.DirModifiedEvent if k == "d" else ev.FileModifiedEvent)(F(r)) for k in kinds})
    return out


def run_chain(states, recursive, plans, st_=None):
    """states: list of trees; plans: list (same length) of fault plans {(op, rel): action}; plans[0] applies to the
    baseline snapshot taken at start.  Raises Violation."""
    from watchdog import events as ev
    from watchdog.observers.api import ObservedWatch
    from watchdog.observers.polling import PollingEmitter

    v = vfs.VFS(states[0])
    v.hits = set()
    q = queue.Queue()
    em = PollingEmitter(q, ObservedWatch(vfs.ROOT, recursive=recursive), timeout=0, stat=v.stat, listdir=v.listdir)
    v.hook = make_hook(plans[0])
    base, after = effective(states[0], recursive, plans[0])
    if base == ROOT_GONE:
        # start() on a vanished root: not part of the statement; only require that it raises OSError or works
        try:
            em.on_thread_start()
        except OSError:
            pass
        return {"nontrivial": False, "classes": ["baseline-root-gone"]}
    em.on_thread_start()

    def snapshot_check(i, entries):
        # the snapshot the emitter keeps (looked at if it is where it used to be): exactly the effective tree, with
        # the stat data the stat function returned
        snap = getattr(em, "_snapshot", None)
        if snap is not None and hasattr(snap, "stat_info"):
            hook, v.hook = v.hook, None
            try:
                msg = vfs.snapshot_content_error(snap, entries)
            finally:
                v.hook = hook
            if msg:
                raise Violation(f"poll {i}: {msg}", "snapshot-content")

    snapshot_check(0, base)
    prev = base
    nontrivial = False
    classes = set()
    gone = False
    for i in range(1, len(states)):
        tree_before = dict(states[i])
        v.tree = dict(states[i])
        v.hits = set()
        v.hook = make_hook(plans[i])
        try:
            em.queue_events(0)
        except Exception as e:  # noqa: BLE001
            raise Violation(f"poll {i}: queue_events raised {type(e).__name__}: {e}", f"raised-{type(e).__name__}") from None
        got = []
        while True:
            try:
                e, w = q.get_nowait()
            except queue.Empty:
                break
            got.append(e)
        if gone:
            if got:
                raise Violation(f"poll {i}: events after the root-deleted event: {got}", "events-after-root-deleted")
            continue
        new, after = effective(tree_before, recursive, plans[i])
        fault_mattered = bool(v.hits) and (new == ROOT_GONE or new != vfs.visible(tree_before, recursive))
        if fault_mattered:
            nontrivial = True
            classes.add("fault-changed-effective-tree")
        if v.hits:
            classes.add("fault-hit")
        if new == ROOT_GONE:
            classes.add("root-gone")
            if got != [ev.DirDeletedEvent(vfs.ROOT)]:
                raise Violation(f"poll {i}: root gone, expected exactly [DirDeletedEvent(root)], got {got}", "root-gone-events")
            if em.should_keep_running():
                raise Violation(f"poll {i}: root gone but the emitter was not stopped", "root-gone-not-stopped")
            gone = True
            continue
        exp = expected_events(prev, new)
        pool = list(got)
        for alts in exp:
            hit = [g for g in pool if g in alts and type(g) in {type(a) for a in alts}]
            if not hit:
                raise Violation(
                    f"poll {i}: expected one of {sorted(map(repr, alts))}, delivered {got}; prev={sorted(prev)} new={sorted(new)}",
                    "missing-event",
                )
            pool.remove(hit[0])
        if pool:
            raise Violation(f"poll {i}: unexpected events {pool} (all delivered: {got})", "extra-event")
        # order: deletions of a kind before creations of that kind
        for dcls, ccls in ((ev.FileDeletedEvent, ev.FileCreatedEvent), (ev.DirDeletedEvent, ev.DirCreatedEvent)):
            di = [k for k, g in enumerate(got) if type(g) is dcls]
            ci = [k for k, g in enumerate(got) if type(g) is ccls]
            if di and ci and max(di) > min(ci):
                raise Violation(f"poll {i}: {ccls.__name__} delivered before {dcls.__name__}: {got}", "order")
        if len({type(g) for g in got}) >= 2:
            nontrivial = True
            classes.add("multi-class-diff")
        if not got:
            classes.add("empty-poll")
        snapshot_check(i, new)
        prev = new
        # the tree left behind by mutations is what later states are compared with only through their own snapshot
    return {"nontrivial": nontrivial, "classes": sorted(classes)}


# ----------------------------------------------------------------------------- case encoding


def enc_plan(plan):
    return [[op, rel, act] for (op, rel), act in sorted(plan.items())]


def dec_plan(lst):
    return {(op, rel): act for op, rel, act in lst}


def enc_case(states, recursive, plans):
    return {"states": [vfs.tree_to_case(t) for t in states], "recursive": recursive, "plans": [enc_plan(p) for p in plans]}


def run_case(st_, states, recursive, plans, sample=False):
    info = run_chain(states, recursive, plans)
    case = enc_case(states, recursive, plans)
    st_.case(case, info["nontrivial"], info["classes"] + (["recursive"] if recursive else ["non-recursive"]), sample=case if sample else None)


# ----------------------------------------------------------------------------- generators


@st.composite
def cases(draw):
    recursive = draw(st.booleans())
    states = draw(treegen.chains(min_len=2, max_len=6))
    plans = [{}]
    for t in states[1:]:
        plan = {}
        for _ in range(draw(st.sampled_from([0, 0, 1, 1, 2]))):
            rel = draw(st.sampled_from(sorted(t)))
            op = draw(st.sampled_from(["stat", "listdir"]))
            plan[(op, rel)] = draw(st.sampled_from(ACTIONS))
        plans.append(plan)
    if draw(st.integers(0, 5)) == 0:
        t = states[0]
        rel = draw(st.sampled_from(sorted(t)))
        op = draw(st.sampled_from(["stat", "listdir"]))
        if (op, rel) != ("stat", ""):
            plans[0][(op, rel)] = draw(st.sampled_from(ACTIONS))
    return states, recursive, plans


def exhaustive_cases(shard, nshards, max_entries):
    from props.c09 import shapes

    shp = shapes(("a", "b"), 2, max_entries)
    baselines = []
    baselines.append({"": ("d", 100, 1, 0, 0)})
    full = {"": ("d", 100, 1, 0, 0), "a": ("d", 1, 1, 0, 0), "a/a": ("f", 2, 1, 0, 0), "b": ("f", 3, 1, 0, 0)}
    baselines.append(full)
    k = 0
    for sh in shp:
        paths = sorted(sh)
        new = {"": ("d", 100, 1, 0, 0)}
        for j, p in enumerate(paths):
            new[p] = (sh[p], j + 1, 1, 0, 0)
        for base in baselines + [dict(new)]:
            positions = [(op, rel) for rel in sorted(new) for op in ("stat", "listdir")]
            for pos in positions:
                for act in ACTIONS:
                    for rec in (True, False):
                        k += 1
                        if k % nshards != shard:
                            continue
                        # three polls: faulted poll, a clean poll of the tree left behind, a clean poll again
                        eff, after = effective(new, rec, {pos: act})
                        yield [base, new, after, after], rec, [{}, {pos: act}, {}, {}]


# ----------------------------------------------------------------------------- shards

NSH = 16


def shards(tier, seed):
    from props import c10_conc

    return [(k, tier, seed, i) for i in range(NSH) for k in ("exh", "hyp")] + c10_conc.shards(tier, seed)


def run_shard(spec):
    if spec[0] == "conc":
        from props import c10_conc

        return c10_conc.run_shard(spec)
    kind, tier, seed, i = spec
    st_ = Stats()
    if kind == "exh":
        n = 0
        st_.exhaustive = True
        for states, rec, plans in exhaustive_cases(i, NSH, 2 if tier == "quick" else 3):
            n += 1
            try:
                run_case(st_, states, rec, plans, sample=(n % 700 == 1))
            except Violation as v:
                st_.fail(enc_case(states, rec, plans), v.message, v.signature)
                st_.exhaustive = False
                break
        st_.extra["fault_positions_enumerated"] = n
        return st_
    n_examples = 1200 if tier == "quick" else 15000
    count = [0]

    def body(case):
        states, rec, plans = case
        count[0] += 1
        run_case(st_, states, rec, plans, sample=(count[0] % 300 == 1))

    res = runner.hyp_search(cases(), body, seed=runner.derive_seed(seed, ID, i), max_examples=n_examples)
    if res is not None:
        (states, rec, plans), v = res
        st_.fail(enc_case(states, rec, plans), v.message, v.signature)
    st_.extra["random_chains"] = count[0]
    return st_


def replay(case):
    if str(case.get("kind", "")).startswith("conc-"):
        from props import c10_conc

        return c10_conc.replay(case)
    states = [vfs.case_to_tree(t) for t in case["states"]]
    plans = [dec_plan(p) for p in case["plans"]]
    try:
        run_chain(states, case["recursive"], plans)
    except Violation as v:
        return [runner.Failure(case, v.message, v.signature)]
    return []
