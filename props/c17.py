"""C17 - delay queue: FIFO, never early, loses or duplicates nothing; close() unblocks.

Engine E2 (vlib.dsched): the real DelayedQueue runs on substitute threading/time under a generated schedule
with line-level scheduling points in delayed_queue.py.  Programs: one producer (puts with/without delay and
virtual gaps around the delay d), one consumer (get loop, optional think time), a remover, an optional early
closer.  Schedules: exhaustive DFS under a preemption bound on fixed programs + random schedules on
Hypothesis-drawn programs.
"""

from __future__ import annotations

import collections

from hypothesis import strategies as st

from vlib import runner
from vlib.dsched import core, explore, harness, loader
from vlib.runner import Stats, Violation

ID = "C17"
LEVEL = "exploration"
DESIGN_REF = "DESIGN.md §3.2, §4 C17"
RULE = (
    "cases = (program: puts [(gap, delayed?)], removes [(gap, target element)], consumer think time, optional early "
    "close time, optional time spent in remove()'s predicate while the queue is held; schedule).  Gaps from {0, d/2, d-eps, d, d+eps}, d = 0.5, eps = 2^-10.  Exhaustive part: DFS over all "
    "schedules with <= k preemptions (k=1 quick, 2 thorough) of 9 fixed programs, line-level scheduling points in "
    "delayed_queue.py; random part: Hypothesis programs x random schedules (<= 3 preemptions at drawn positions).  "
    "non-trivial = a remove() or close() overlaps a get() call in the schedule, or a gap lies within eps of d; "
    "distinct = digest of (program, schedule decisions)"
)
ASSUMPTIONS = [
    "substitute threading/time primitives of vlib/dsched behave like CPython's for the operations used (Lock, Condition FIFO notify, sleep); strict virtual clock: time advances only when no thread is runnable",
    "preemption granularity = source lines of delayed_queue.py plus every primitive operation",
    "timing upper bound is asserted for a consumer without think time only: an element is returned no later than max(its put time [+d if delayed], put time + d of every delayed element put before it)",
]
D = 0.5
EPS = 2.0**-10
GAPS = [0.0, D / 2, D - EPS, D, D + EPS]


class El:
    """A queue element with value equality, like the records the library itself queues: several elements of one program
    are equal but distinct objects, and the log names an element by its index (identity) - seeded change C17-9."""

    __slots__ = ("idx", "grp")

    def __init__(self, idx, grp):
        self.idx, self.grp = idx, grp

    def __eq__(self, other):
        return isinstance(other, El) and other.grp == self.grp

    def __hash__(self):
        return hash(self.grp)

    def __repr__(self):
        return f"El({self.idx})"


def _idx(x):
    return None if x is None else x.idx


def make_main(prog):
    W = loader.load()
    n_ = len(prog["puts"])
    els = [El(i, (i % 2) if n_ % 2 else 0) for i in range(n_)]
    th, tm = core.fake_threading, core.fake_time

    def main(s):
        q = W.delayed_queue.DelayedQueue(D)
        now = lambda: s.now  # noqa: E731
        if type(getattr(q, "_queue", None)) is collections.deque:
            # "since insertion": the moment an element enters the queue is recorded by the container itself

            class Recording(collections.deque):
                def append(self, item):
                    s.record("inserted", (_idx(item[0]), now()))
                    super().append(item)

            q._queue = Recording(q._queue)

        def producer():
            for i, (gap, delayed) in enumerate(prog["puts"]):
                if gap:
                    tm.sleep(gap)
                s.record("put_call", (i, delayed, now()))
                q.put(els[i], delay=delayed)
                s.record("put_ret", (i, now()))

        def consumer():
            while True:
                s.record("get_call", now())
                x = _idx(q.get())
                s.record("get_ret", (x, now()))
                if x is None:
                    break
                if prog["think"]:
                    tm.sleep(prog["think"])

        def remover():
            for gap, target in prog["removes"]:
                if gap:
                    tm.sleep(gap)
                s.record("remove_call", (target, now()))
                x = _idx(q.remove((lambda e: e.idx == target) if not prog.get("pred_time") else (lambda e: (tm.sleep(prog["pred_time"]), e.idx == target)[1])))
                s.record("remove_ret", (target, x, now()))

        def closer():
            tm.sleep(prog["close_at"])
            s.record("close_call", now())
            q.close()
            s.record("close_ret", now())

        ts = [th.Thread(target=consumer, name="consumer"), th.Thread(target=producer, name="producer")]
        if prog["removes"]:
            ts.append(th.Thread(target=remover, name="remover"))
        if prog.get("close_at") is not None:
            ts.append(th.Thread(target=closer, name="closer"))
        for t in ts:
            t.start()
        total = sum(g for g, _ in prog["puts"]) + sum(g for g, _ in prog["removes"]) + (prog.get("close_at") or 0) + (prog.get("pred_time") or 0) * len(prog["removes"]) * (len(prog["puts"]) + 1)
        tm.sleep(total + 3 * D + len(prog["puts"]) * (prog["think"] or 0) + 1)
        s.record("settled", now())
        if prog.get("close_at") is None:
            s.record("close_call", now())
            q.close()
            s.record("close_ret", now())
        for t in ts:
            t.join()
        s.record("late_get", _idx(q.get()))
        return None

    return main


def check(prog, r, s):
    v = harness.basic_verdict(r)
    if v:
        raise Violation(f"{v[1]} (program {prog})", v[0])
    log = s.log
    put_t = {}
    ins_t = {}
    delayed = {}
    gets = []  # (value, time, call_time)
    removed = []
    settled_seq = close_seq = None
    call_t = None
    overlap = False
    open_get = None
    for seq, tid, tag, p in log:
        if tag == "put_call":
            put_t[p[0]] = p[2]
            delayed[p[0]] = p[1]
        elif tag == "inserted":
            ins_t[p[0]] = p[1]
        elif tag == "get_call":
            call_t = p
            open_get = seq
        elif tag == "get_ret":
            gets.append((p[0], p[1], call_t))
            open_get = None
        elif tag == "remove_ret":
            if p[1] is not None:
                removed.append(p[1])
            if open_get is not None:
                overlap = True
        elif tag == "close_ret":
            close_seq = seq
            if open_get is not None:
                overlap = True
        elif tag == "settled":
            settled_seq = seq
        elif tag == "late_get":
            if p is not None:
                raise Violation(f"get() after close() returned {p!r} instead of the end marker (program {prog})", "get-after-close")
    got = [g[0] for g in gets if g[0] is not None]
    handed = got + removed
    if len(handed) != len(set(handed)):
        raise Violation(f"an element was handed out twice: gets {got}, removes {removed} (program {prog})", "duplicate")
    if any(x not in put_t for x in handed):
        raise Violation(f"an element that was never put was handed out: {handed}", "invented")
    if got != sorted(got):
        raise Violation(f"get() returned elements out of put order: {got} (program {prog})", "order")
    for x, t, ct in gets:
        t_in = ins_t.get(x, put_t.get(x))  # the insertion, or - if the container could not be watched - the call of put()
        if x is not None and delayed[x] and t < t_in + D:
            raise Violation(f"delayed element {x} (put() called at {put_t[x]}, inserted at {t_in}) was returned at {t} < {t_in + D} (program {prog})", "early")
    early_close = prog.get("close_at") is not None
    if not early_close:
        missing = sorted(set(put_t) - set(handed))
        if missing:
            raise Violation(f"elements {missing} were neither returned by get() nor by remove() although the consumer kept calling get() until close() (gets {got}, removes {removed}; program {prog})", "lost")
        if not prog["think"] and not prog.get("pred_time"):
            for x, t, ct in gets:
                if x is None:
                    continue
                bound = max([put_t[x] + (D if delayed[x] else 0.0)] + [put_t[y] + D for y in put_t if y < x and delayed[y]])
                if t > bound + 1e-9:
                    raise Violation(f"element {x} (put at {put_t[x]}, delayed={delayed[x]}) was returned at {t}, later than {bound} (program {prog})", "late")
    if not gets or gets[-1][0] is not None:
        raise Violation(f"the consumer's get() never returned the end marker after close() (program {prog})", "no-end-marker")
    near = any(abs(g - D) <= EPS and g != 0 for g, _ in prog["puts"]) or any(abs(g - D) <= EPS for g, _ in prog["removes"])
    cl = []
    if overlap:
        cl.append("remove-or-close-overlaps-get")
    if near:
        cl.append("gap-near-delay")
    if early_close:
        cl.append("early-close")
    if r.preemptions:
        cl.append(f"preemptions={min(r.preemptions, 3)}")
    return overlap or near, cl


FIXED = [
    {"puts": [(0.0, True), (0.0, False)], "removes": [(0.0, 0)], "think": 0, "close_at": None},
    {"puts": [(0.0, False), (0.0, True), (D - EPS, False)], "removes": [(D / 2, 1)], "think": 0, "close_at": None},
    {"puts": [(0.0, True), (D, True)], "removes": [], "think": 0, "close_at": D / 2},
    {"puts": [(0.0, False), (0.0, False)], "removes": [(0.0, 1)], "think": D / 2, "close_at": None},
    {"puts": [(0.0, True)], "removes": [(D - EPS, 0)], "think": 0, "close_at": D + EPS},
    {"puts": [(D / 2, True), (0.0, True), (0.0, False)], "removes": [(D / 2, 0), (0.0, 2)], "think": 0, "close_at": None},
    # a put() and a remove() that has to scan past a waiting delayed element become runnable at the same instant
    {"puts": [(0.0, True), (D / 2, False)], "removes": [(D / 2, 1)], "think": 0, "close_at": None},
    {"puts": [(0.0, True), (0.0, True), (D / 2, True)], "removes": [(D / 2, 2), (0.0, 1)], "think": 0, "close_at": None},
    # remove() with a slow predicate holds the queue for a while: a put() that had to wait counts from its insertion
    {"puts": [(0.0, True), (D / 2, True)], "removes": [(D / 2 - EPS, 1)], "think": 0, "close_at": None, "pred_time": D},
]


@st.composite
def programs(draw):
    n = draw(st.integers(1, 5))
    puts = [(draw(st.sampled_from(GAPS)), draw(st.booleans())) for _ in range(n)]
    removes = [(draw(st.sampled_from(GAPS)), draw(st.integers(0, n - 1))) for _ in range(draw(st.integers(0, 3)))]
    return {
        "puts": puts,
        "removes": removes,
        "think": draw(st.sampled_from([0, 0, D / 2])),
        "close_at": draw(st.sampled_from([None, None, None, 0.0, D / 2, D, D + EPS, 2 * D])),
        "pred_time": draw(st.sampled_from([0, 0, 0, D / 2, D])) if removes else 0,
    }


LINES = ("delayed_queue",)
NSH = 16


def shards(tier, seed):
    return [("dfs", tier, seed, i) for i in range(NSH)] + [("rand", tier, seed, i) for i in range(NSH)]


def run_shard(spec):
    kind, tier, seed, i = spec
    harness.ensure_lines(LINES)
    st_ = Stats()
    if kind == "dfs":
        bound = 1 if tier == "quick" else 2
        st_.exhaustive = True
        total = 0
        for pi, prog in enumerate(FIXED):
            main = make_main(prog)

            def rw(prefix, prog=prog, main=main, pi=pi):
                r, s = harness.execute(main, prefix=prefix)
                chosen = [d[2] for d in r.decisions]
                try:
                    nt, cl = check(prog, r, s)
                except Violation as v:
                    v.prefix = chosen
                    raise
                st_.case(["dfs", pi, chosen], nt, cl + [f"program{pi}"], sample={"program": prog, "prefix": chosen} if st_.evaluations % 400 == 0 else None)
                return r.decisions

            try:
                runs, done = explore.dfs(rw, bound, shard=(i, NSH), max_runs=200000)
            except Violation as v:
                st_.fail({"kind": "prefix", "program": prog, "prefix": getattr(v, "prefix", None)}, v.message, v.signature)
                st_.exhaustive = False
                continue
            total += runs
            if not done:
                st_.exhaustive = False
        st_.extra["dfs_schedules"] = total
        st_.notes.append(f"DFS preemption bound {bound}")
        return st_
    count = [0]

    def body(case):
        prog, sched = case
        count[0] += 1
        r, s = harness.execute_random(make_main(prog), sched)
        nt, cl = check(prog, r, s)
        st_.case(["rand", prog, [d[2] for d in r.decisions]], nt, cl, sample={"program": prog, "schedule": sched} if count[0] % 500 == 1 else None)

    res = runner.hyp_search(st.tuples(programs(), harness.SCHEDULES), body, seed=runner.derive_seed(seed, ID, i), max_examples=1500 if tier == "quick" else 20000)
    if res is not None:
        (prog, sched), v = res
        st_.fail({"kind": "random", "program": prog, "schedule": sched}, v.message, v.signature)
    st_.extra["random_executions"] = count[0]
    return st_


def replay(case):
    harness.ensure_lines(LINES)
    prog = case["program"]
    prog["puts"] = [tuple(p) for p in prog["puts"]]
    prog["removes"] = [tuple(p) for p in prog["removes"]]
    try:
        if case["kind"] == "prefix":
            r, s = harness.execute(make_main(prog), prefix=case["prefix"] or [])
        else:
            fr, free = case["schedule"]
            r, s = harness.execute_random(make_main(prog), ([tuple(x) for x in fr], free))
        check(prog, r, s)
    except Violation as v:
        return [runner.Failure(case, v.message, v.signature)]
    return []
