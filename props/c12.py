"""C12 - every descriptor and thread is released exactly once, also on failure.

(a) real kernel: generated cycles of schedule (existing tree / missing path / same watch again) / unschedule /
    start / stop+join / new observer / deleting a watched root; after every step that completes a release the
    process's descriptor count (/proc/self/fd) and the library's thread count must equal the model's prediction.
(b) simulated kernel + deterministic scheduler: Inotify + InotifyBuffer with reader, consumer, event source and a
    closer at a generated time; every schedule under a preemption bound with line points in inotify_c.py and
    inotify_buffer.py; the descriptor table must show every descriptor closed exactly once and never used after close.
(c) construction faults: inotify_init and every inotify_add_watch of a recursive tree fail in turn with
    ENOENT / ENOSPC / EMFILE / EACCES; schedule() raises or succeeds and no descriptor is left without owner.
"""

from __future__ import annotations

import errno
import os
import shutil
import threading
import time

from hypothesis import strategies as st

from vlib import fsops, runner, simkernel as sk
from vlib.dsched import core, explore, harness, loader
from vlib.runner import Stats, Violation

ID = "C12"
LEVEL = "fault_enumeration"
DESIGN_REF = "DESIGN.md §4 C12"
RULE = (
    "(a) Hypothesis lists of 5-40 cycle steps (new observer, schedule of a tree / a missing path / the same watch again, "
    "unschedule, start, stop, stop and keep using the observer object, delete a watched root) against the real kernel, "
    "model predicts 3 descriptors + 2 threads per started inotify watch and 1 thread per running observer; (b) DFS with <= k preemptions (k=1 quick, 2 thorough) over 5 "
    "fixed reader/consumer/closer programs + random programs x random schedules on the simulated kernel; (c) exhaustive: "
    "trees of 1-6 directories x every kernel call position of watch construction x {ENOENT, ENOSPC, EMFILE, EACCES}.  "
    "non-trivial: (a) cycle with a failing schedule(), a self-shutdown or a start() after stop(); (b) close() overlapping a read_events() call "
    "with >= 1 preemption; (c) fault at position >= 1; distinct = digest of the case"
)
ASSUMPTIONS = [
    "(a) descriptor count = len(os.listdir('/proc/self/fd')) of the worker process, library threads recognized by class (InotifyObserver/BaseObserver, InotifyEmitter, InotifyBuffer)",
    "(b)/(c) simulated kernel with never re-used descriptor numbers (vlib/simkernel.py, validated against the real kernel in setup): read / poll / write / close on a closed number is recorded; inotify_add_watch / inotify_rm_watch on a closed descriptor is logged, not judged",
    "EACCES from inotify_add_watch is swallowed by the library by design (Inotify._raise_error): construction then succeeds",
]
ROOT = b"/w"
LINES_B = ("inotify_c", "inotify_buffer", "delayed_queue")

# ============================================================================ (a) real kernel cycles


def lib_threads():
    return sorted(type(t).__name__ for t in threading.enumerate() if type(t).__name__ in ("InotifyObserver", "BaseObserver", "InotifyEmitter", "InotifyFullEmitter", "InotifyBuffer"))


def nfds():
    return len(os.listdir("/proc/self/fd"))


def start_or_inconclusive(obs):
    """obs.start(); if the machine is out of inotify instances (other checks running beside this one) the case cannot be
    judged: a start() that failed has dropped the emitter it could not start, the model would no longer match."""
    import errno

    try:
        obs.start()
    except OSError as e:
        if e.errno == errno.EMFILE and "inotify" in str(e):
            try:
                obs.stop()
            finally:
                raise runner.Inconclusive("the per-user limit of inotify instances is exhausted by other processes") from None
        raise


def run_cycles(steps):
    from watchdog.events import FileSystemEventHandler
    from watchdog.observers.inotify import InotifyObserver

    base = os.path.join(fsops.SCRATCH, f"vfc{os.getpid()}")
    shutil.rmtree(base, ignore_errors=True)
    os.makedirs(base)
    fd0, th0 = nfds(), lib_threads()
    if th0:
        raise runner.Inconclusive(f"library threads alive before the case: {th0}")
    obs = None
    running = False
    dead = False  # stop() was called on this observer: its own thread will never run (again), the object is re-used
    ever_started = False
    watches = {}  # name -> (watch, alive)
    handler = FileSystemEventHandler()
    info = {"failing": 0, "selfshutdown": 0}
    trees = 0

    def expect():
        live = sum(1 for w in watches.values() if w["started"] and w["alive"])
        return fd0 + 3 * live, (1 if running else 0) + 2 * live

    def verify(step):
        efd, eth = expect()
        # joins have completed when the calls returned; allow a short grace for the kernel-side close of a thread's last fd
        for _ in range(200):
            if nfds() == efd and len(lib_threads()) == eth:
                return
            time.sleep(0.005)
        raise Violation(
            f"after step {step} of {steps}: {nfds() - fd0} descriptors and {lib_threads()} library threads in use, the model expects {efd - fd0} descriptors and {eth} threads",
            "fd-leak" if nfds() > efd else ("thread-leak" if len(lib_threads()) > eth else "count-mismatch"),
        )

    try:
        for si, step in enumerate(steps):
            k = step[0]
            if k == "new":
                if obs is None:
                    obs = InotifyObserver()
                    running = False
                    dead = False
                    ever_started = False
                    watches = {}
            elif obs is None:
                continue
            elif k == "schedule":
                name = step[1]
                if name == "missing":
                    try:
                        obs.schedule(handler, os.path.join(base, "does-not-exist"), recursive=True)
                        if running:
                            raise Violation(f"step {si}: schedule() of a missing path on a running observer did not raise", "no-error")
                        # not running: the emitter is only created; it fails at start()
                        watches["missing"] = {"watch": None, "started": False, "alive": True}
                    except OSError:
                        info["failing"] += 1
                else:
                    d = os.path.join(base, name)
                    if not os.path.isdir(d):
                        os.makedirs(os.path.join(d, "s1", "s2"))
                        os.makedirs(os.path.join(d, "s3"))
                        trees += 1
                    if name in watches and not watches[name]["alive"]:
                        continue
                    w = fsops.with_instances(lambda: obs.schedule(handler, d, recursive=True))
                    if name not in watches:
                        watches[name] = {"watch": w, "started": running, "alive": True}
            elif k == "unschedule":
                name = step[1]
                if name in watches and watches[name]["watch"] is not None:
                    obs.unschedule(watches[name]["watch"])
                    del watches[name]
            elif k == "start" and dead:
                # a stopped observer is started (again): the call raises RuntimeError if its thread ran before, else the
                # thread starts and ends at once; either way the emitters scheduled meanwhile were started and are the
                # observer's to release at its next stop()
                if all(t != "InotifyObserver" for t in lib_threads()):
                    try:
                        start_or_inconclusive(obs)
                        ever_started = True
                        end = time.monotonic() + 5
                        while time.monotonic() < end and obs.is_alive():
                            time.sleep(0.005)
                    except RuntimeError:
                        pass
                    except OSError:
                        # a missing path among the watches: as below, the application gives the observer up
                        info["failing"] += 1
                        obs.stop()
                        obs = None
                        running = dead = False
                        watches = {}
                    for w in watches.values():
                        w["started"] = True
                    info["restarted_after_stop"] = info.get("restarted_after_stop", 0) + 1
            elif k == "start":
                if not running and all(t != "InotifyObserver" for t in lib_threads()):
                    try:
                        start_or_inconclusive(obs)
                        running = True
                        ever_started = True
                        for w in watches.values():
                            w["started"] = True
                    except OSError:
                        # a scheduled missing path makes start() fail: the failing emitter is dropped, the others that
                        # were started stay with the observer until stop()
                        info["failing"] += 1
                        watches.pop("missing", None)
                        obs.stop()
                        obs = None
                        running = False
                        watches = {}
                    except RuntimeError:
                        pass
            elif k == "stop":
                obs.stop()
                if running:
                    obs.join()
                obs = None
                running = False
                watches = {}
            elif k == "stop_keep":
                # stop(), and the application goes on using the observer object
                obs.stop()
                if ever_started:
                    obs.join()
                running = False
                dead = True
                watches = {}
            elif k == "rmroot":
                name = step[1]
                if name in watches and watches[name]["started"] and watches[name]["alive"] and running and not dead:
                    shutil.rmtree(os.path.join(base, name))
                    info["selfshutdown"] += 1
                    em = [e for e in obs.emitters if e.watch == watches[name]["watch"]]
                    end = time.monotonic() + 10
                    while time.monotonic() < end and any(e.is_alive() for e in em):
                        time.sleep(0.005)
                    if any(e.is_alive() for e in em):
                        raise Violation(f"step {si}: emitter still alive 10 s after its root was deleted", "emitter-not-stopped")
                    watches[name]["alive"] = False
            verify(si)
        if obs is not None:
            obs.stop()
            if running:
                obs.join()
            running = False
            watches = {}
            verify("final")
        return info
    finally:
        try:
            if obs is not None:
                obs.stop()
        except Exception:  # noqa: BLE001
            pass
        shutil.rmtree(base, ignore_errors=True)


STEP = st.one_of(
    st.just(("new",)),
    st.tuples(st.just("schedule"), st.sampled_from(["t1", "t2", "missing", "t1"])),
    st.tuples(st.just("unschedule"), st.sampled_from(["t1", "t2"])),
    st.just(("start",)),
    st.just(("stop",)),
    st.just(("stop_keep",)),
    st.tuples(st.just("rmroot"), st.sampled_from(["t1", "t2"])),
).map(list)

# ============================================================================ (b) close vs. reader on the simulated kernel


def make_main_b(prog):
    W = loader.load()
    sk.install(W)
    th, tm = core.fake_threading, core.fake_time

    def main(s):
        k = sk.new_kernel()
        k.fs_makedirs(ROOT + b"/sub")
        buf = W.inotify_buffer.InotifyBuffer(ROOT, recursive=True)
        s.record("created", k.open_fds())

        def consumer():
            while buf.read_event() is not None:
                pass

        def source():
            for gap, name in prog["events"]:
                if gap:
                    tm.sleep(gap)
                try:
                    k.op_create(ROOT + b"/" + name.encode())
                except OSError:
                    pass

        ts = []
        if prog.get("consumer", True):
            ts.append(th.Thread(target=consumer, name="consumer"))
        ts.append(th.Thread(target=source, name="source"))
        for t in ts:
            t.start()
        if prog["close_at"]:
            tm.sleep(prog["close_at"])
        s.record("close_call", None)
        buf.close()
        s.record("close_ret", k.open_fds())
        if prog.get("double_close"):
            buf.close()
        for t in ts:
            t.join()
        tm.sleep(2.0)
        return k

    return main


def check_b(prog, r, s):
    v = harness.basic_verdict(r)
    if v:
        raise Violation(f"{v[1]} (program {prog})", v[0])
    k = r.value
    if k.misuse:
        raise Violation(f"descriptor misuse {k.misuse} (program {prog}; kernel log {k.log[-8:]})", "fd-misuse:" + k.misuse[0][0])
    if k.open_fds():
        raise Violation(f"descriptors {k.open_fds()} still open after close() returned and all threads ended (program {prog}; kernel log {k.log[-8:]})", "fd-leak")
    closes = [e[1] for e in k.log if e[0] == "close"]
    if len(closes) != len(set(closes)):
        raise Violation(f"a descriptor was closed twice: {closes}", "double-close")
    cl = []
    if r.preemptions:
        cl.append(f"preemptions={min(r.preemptions, 3)}")
    if prog["close_at"] == 0:
        cl.append("close-at-once")
    if prog.get("double_close"):
        cl.append("double-close-call")
    return r.preemptions > 0, cl


FIXED_B = [
    {"events": [], "close_at": 0.0},
    {"events": [(0.0, "a")], "close_at": 0.0},
    {"events": [(0.0, "a"), (0.5, "b")], "close_at": 0.5},
    {"events": [(0.0, "a")], "close_at": 0.0, "consumer": False, "double_close": True},
    {"events": [(0.25, "a"), (0.0, "b"), (0.0, "c")], "close_at": 0.25},
]


@st.composite
def programs_b(draw):
    ev = [(draw(st.sampled_from([0.0, 0.0, 0.25, 0.5])), f"f{i}") for i in range(draw(st.integers(0, 4)))]
    return {"events": ev, "close_at": draw(st.sampled_from([0.0, 0.0, 0.25, 0.5, 1.0])), "consumer": draw(st.booleans()), "double_close": draw(st.sampled_from([False, False, True]))}


# ============================================================================ (c) construction faults

ERRNOS = {"ENOENT": errno.ENOENT, "ENOSPC": errno.ENOSPC, "EMFILE": errno.EMFILE, "EACCES": errno.EACCES}


def trees_c():
    """Directory sets (relative to /w) with 1-6 directories in total (the root counts)."""
    return [[], ["a"], ["a", "b"], ["a", "a/b"], ["a", "a/b", "c"], ["a", "a/b", "a/b/c", "d"], ["a", "b", "c", "d", "e"]]


def run_fault_cell(tree, call, index, err, running):
    W = loader.load()
    sk.install(W)
    api, ev = W.api, W.events

    def main(s):
        k = sk.new_kernel()
        k.fs_makedirs(ROOT)
        for d in tree:
            k.fs_makedirs(ROOT + b"/" + d.encode())
        k.faults[(call, index)] = ERRNOS[err]
        obs = api.BaseObserver(W.inotify.InotifyEmitter, timeout=1.0)
        h = ev.FileSystemEventHandler()
        out = {}
        if running:
            obs.start()
        try:
            obs.schedule(h, "/w", recursive=True)
            out["schedule"] = "ok"
        except OSError as e:
            out["schedule"] = "OSError"
        if running:
            out["after_schedule"] = k.open_fds()
        else:
            try:
                obs.start()
                out["start"] = "ok"
            except OSError:
                out["start"] = "OSError"
            out["after_start"] = k.open_fds()
        out["emitters_alive"] = sum(1 for e in obs.emitters if e.is_alive())
        core.fake_time.sleep(1.0)
        obs.stop()
        try:
            obs.join()
        except RuntimeError:
            pass
        core.fake_time.sleep(1.0)
        out["final"] = k.open_fds()
        out["misuse"] = list(k.misuse)
        out["calls"] = dict(k.calls)
        return out

    r, s = harness.execute(main, prefix=[])
    desc = f"tree {tree}, {call}#{index} -> {err}, observer {'running' if running else 'started afterwards'}"
    v = harness.basic_verdict(r)
    if v:
        raise Violation(f"{v[1]} ({desc})", v[0])
    out = r.value
    key = "after_schedule" if running else "after_start"
    failed = out.get("schedule") == "OSError" or out.get("start") == "OSError"
    if failed and out[key]:
        raise Violation(f"{desc}: the call raised but descriptors {out[key]} stayed open (no live object owns them)", "fd-leak-on-failure")
    if not failed and len(out[key]) != 3:
        raise Violation(f"{desc}: construction succeeded with {len(out[key])} open descriptors (expected 3)", "fd-count")
    if out["final"]:
        raise Violation(f"{desc}: descriptors {out['final']} still open after stop()+join()", "fd-leak")
    if out["misuse"]:
        raise Violation(f"{desc}: descriptor misuse {out['misuse']}", "fd-misuse:" + out["misuse"][0][0])
    hit = out["calls"][call] > index
    return hit and index >= 1, ["fault:" + err, "raised" if failed else "succeeded", "fault-hit" if hit else "fault-not-reached", "running" if running else "not-running"]


def cells_c():
    for tree in trees_c():
        n = len(tree) + 1
        for err in ERRNOS:
            for running in (True, False):
                yield tree, "inotify_init", 0, err, running
                for i in range(n):
                    yield tree, "inotify_add_watch", i, err, running


# ============================================================================ shards

NSH = 16
WALL_CAP = {"quick": 900, "thorough": 5400}


def shards(tier, seed):
    return [(k, tier, seed, i) for k in ("real", "dfs", "rand", "faults") for i in range(NSH if k != "real" else 8)]


def run_shard(spec):
    kind, tier, seed, i = spec
    st_ = Stats()
    if kind == "real":
        count = [0]

        def body(steps):
            count[0] += 1
            info = run_cycles([["new"]] + steps)
            cl = ["real-cycles"]
            if info["failing"]:
                cl.append("failing-call")
            if info["selfshutdown"]:
                cl.append("self-shutdown")
            if info.get("restarted_after_stop"):
                cl.append("observer-started-after-stop")
            st_.case(["real", steps], bool(info["failing"] or info["selfshutdown"] or info.get("restarted_after_stop")), cl, sample={"steps": steps} if count[0] % 10 == 1 else None)

        res = runner.hyp_search(st.lists(STEP, min_size=5, max_size=40), body, seed=runner.derive_seed(seed, ID, "real", i), max_examples=60 if tier == "quick" else 600, shrink=(tier != "quick"))
        if res is not None:
            steps, v = res
            st_.fail({"kind": "real", "steps": steps}, v.message, v.signature)
        st_.extra["real_cycle_cases"] = count[0]
        return st_
    if kind == "faults":
        harness.ensure_lines(())
        st_.exhaustive = True
        n = 0
        for k, cell in enumerate(cells_c()):
            if k % NSH != i:
                continue
            n += 1
            try:
                nt, cl = run_fault_cell(*cell)
            except Violation as v:
                st_.fail({"kind": "fault", "cell": list(cell)}, v.message, v.signature)
                st_.exhaustive = False
                continue
            st_.case(["fault", list(cell)], nt, cl, sample={"cell": list(cell)} if n % 20 == 1 else None)
        st_.extra["fault_cells"] = n
        return st_
    harness.ensure_lines(LINES_B)
    if kind == "dfs":
        bound = 1 if tier == "quick" else 2
        st_.exhaustive = True
        total = 0
        for pi, prog in enumerate(FIXED_B):
            main = make_main_b(prog)

            def rw(prefix, prog=prog, main=main, pi=pi):
                r, s = harness.execute(main, prefix=prefix)
                chosen = [d[2] for d in r.decisions]
                try:
                    nt, cl = check_b(prog, r, s)
                except Violation as v:
                    v.prefix = chosen
                    raise
                st_.case(["dfs", pi, chosen], nt, cl + [f"closer-program{pi}"], sample={"program": prog, "prefix": chosen} if st_.evaluations % 300 == 0 else None)
                return r.decisions

            try:
                runs, done = explore.dfs(rw, bound, shard=(i, NSH), max_runs=3000 if tier == "quick" else 60000)
            except Violation as v:
                st_.fail({"kind": "prefix", "program": prog, "prefix": getattr(v, "prefix", None)}, v.message, v.signature)
                st_.exhaustive = False
                continue
            total += runs
            st_.exhaustive = st_.exhaustive and done
        st_.extra["dfs_schedules"] = total
        st_.notes.append(f"DFS preemption bound {bound}")
        return st_
    count = [0]

    def body(case):
        prog, sched = case
        count[0] += 1
        r, s = harness.execute_random(make_main_b(prog), sched)
        nt, cl = check_b(prog, r, s)
        st_.case(["rand", prog, [d[2] for d in r.decisions]], nt, cl, sample={"program": prog, "schedule": sched} if count[0] % 200 == 1 else None)

    res = runner.hyp_search(st.tuples(programs_b(), harness.SCHEDULES), body, seed=runner.derive_seed(seed, ID, i), max_examples=1500 if tier == "quick" else 12000)
    if res is not None:
        (prog, sched), v = res
        st_.fail({"kind": "random", "program": prog, "schedule": sched}, v.message, v.signature)
    st_.extra["random_executions"] = count[0]
    return st_


def replay(case):
    try:
        if case["kind"] == "real":
            run_cycles([["new"]] + case["steps"])
        elif case["kind"] == "fault":
            harness.ensure_lines(())
            run_fault_cell(*case["cell"])
        else:
            harness.ensure_lines(LINES_B)
            prog = case["program"]
            prog["events"] = [tuple(e) for e in prog["events"]]
            if case["kind"] == "prefix":
                r, s = harness.execute(make_main_b(prog), prefix=case["prefix"] or [])
            else:
                fr, free = case["schedule"]
                r, s = harness.execute_random(make_main_b(prog), ([tuple(x) for x in fr], free))
            check_b(prog, r, s)
    except Violation as v:
        return [runner.Failure(case, v.message, v.signature)]
    return []
