"""C01 - replaying the native (inotify) event stream reproduces the real directory tree.

Engine E1 (vlib.fsops): generated histories in bursts (pacing rule by construction) against the real kernel
and the public InotifyObserver; at every drain point the tree obtained by replaying created/deleted/moved
events onto the start tree must equal os.walk+lstat of the real tree (paths and kinds).
"""

from __future__ import annotations

import os

from hypothesis import strategies as st

from vlib import fsops, runner
from vlib.runner import Stats, Violation

ID = "C01"
LEVEL = "exploration"
DESIGN_REF = "DESIGN.md §4 C01"
RULE = (
    "cases = (config: recursive, str|bytes root, read-buffer size, normal|generate_full_events emitter; initial tree; list of bursts of ops with "
    "micro-sleeps); random part: Hypothesis histories of 1-4 (quick) / 1-8 (thorough) bursts of <= 6 ops over names "
    "{a,ab,b}, depth <= 3, with files and pre-built trees in out/ to move in (to a free name, or replacing a file / an "
    "empty directory); exhaustive part: every valid history of "
    "length <= 2 over names {a,ab} (one a prefix of the other), depth <= 2 from 3 start states, each back-to-back (where the pacing rule allows) and "
    "drained after every op.  non-trivial = the history has a directory op on a non-empty directory, or a move across "
    "the tree boundary, or a burst of >= 2 ops one of which is a directory op; distinct = digest of (config, "
    "history without sleeps)"
)
ASSUMPTIONS = [
    "relative timing of the operating thread vs the library's threads is sampled (micro-sleeps, read sizes, 16 busy workers), not enumerated",
    "drain = a sentinel file created in the root whose closed event has been dispatched (the pipeline is FIFO)",
    "pacing rule as in DESIGN.md §3.1: inside a burst nothing touches or re-uses the names of a directory changed earlier in the burst, except renaming the directory that just arrived; renaming/removing an ancestor of such a directory is also held back",
]

WALL_CAP = {"quick": 1500, "thorough": 7200}


def describe(d):
    return ", ".join(f"{p or '.'}:{k}" for p, k in sorted(d.items()))


def run_case(case, probe=None, on_window=None):
    """Execute one history.  Raises Violation.  Returns info dict."""
    cfg = case["cfg"]
    s = fsops.Session(cfg, case["init"])
    try:
        rec = bool(cfg.get("recursive", True))
        replay = dict(s.start_tree)
        log = []
        for bi, burst in enumerate(case["bursts"]):
            s.run_burst(burst)
            evs, ok = s.drain()
            errs = s.thread_errors()
            if errs:
                raise Violation(f"library thread died: {errs[0][:3]} after burst {bi} {burst}", "thread-died:" + errs[0][2].split("(")[0], {"trace": errs[0][3]})
            if not ok:
                raise runner.Inconclusive(f"sentinel not answered after burst {bi}: {burst}")
            log.append([repr(e) for e in evs])
            if on_window is not None:
                on_window(s, evs, burst)
            fsops.replay_events(replay, evs, s.norm)
            real = fsops.disk_tree(s.root, recursive=rec)
            got = fsops.scope(replay, rec)
            if got != real:
                missing = {p: k for p, k in real.items() if got.get(p) != k}
                extra = {p: k for p, k in got.items() if real.get(p) != k}
                kindmis = [p for p in missing if p in got]
                sig = "replay:" + ("kind" if kindmis else ("missing" if missing and not extra else ("stale" if extra and not missing else "both")))
                raise Violation(
                    f"after burst {bi} {burst}: replayed tree differs from disk. on disk but not replayed: {{{describe(missing)}}}; "
                    f"replayed but not on disk: {{{describe(extra)}}}; events of this window: {log[-1]}",
                    sig,
                    {"log": log},
                )
        if probe is not None:
            probe(s, case)
        return {"log": log}
    finally:
        s.close()


def is_nontrivial(case):
    m = fsops.model_after_init(case["init"])
    nt = False
    classes = set()
    for burst in case["bursts"]:
        ops = [op for op in burst if op[0] != "sleep"]
        has_dir = False
        for op in ops:
            k = op[0]
            subj_dir = k in ("mkdir", "makedirs", "rmdir", "rmtree") or (k in ("rename", "replace", "move_out") and m.kind(op[1]) == "d") or (k == "move_in" and m.out[op[1]][""][0] == "d")
            if subj_dir:
                has_dir = True
                if k in ("rename", "replace", "move_out", "rmtree") and m.children(op[1]):
                    nt = True
                    classes.add("dir-op-on-nonempty-dir")
                if k == "move_in" and len(m.out[op[1]]) > 1:
                    nt = True
                    classes.add("move-in-tree")
            if k in ("move_out", "move_in"):
                nt = True
                classes.add("boundary-move")
            fsops.apply_op(m, tuple(op))
        if has_dir and len(ops) >= 2:
            nt = True
            classes.add("burst-with-dir-op")
        if not has_dir:
            classes.add("file-only-burst")
    return nt, sorted(classes)


def arrive_then_rename(case):
    m = fsops.model_after_init(case["init"])
    for burst in case["bursts"]:
        arrived = set()
        for op in burst:
            k = op[0]
            if k in ("mkdir", "makedirs"):
                arrived.add(op[1])
            elif k == "move_in":
                arrived.add(op[2])
            elif k == "rename" and op[1] in arrived:
                return True
            elif k == "rename" and m.kind(op[1]) == "d":
                arrived.add(op[2])
            fsops.apply_op(m, tuple(op))
    return False


# ----------------------------------------------------------------------------- minimization (bounded ddmin, real kernel)


def still_fails(case, tries=2):
    for _ in range(tries):
        try:
            run_case(case)
        except Violation as v:
            return v
        except runner.Inconclusive:
            continue
    return None


def minimize(case, v, budget=40):
    best, bestv = case, v
    n = 0
    changed = True
    while changed and n < budget:
        changed = False
        # drop whole bursts, then single ops, then init ops
        cands = []
        for bi in range(len(best["bursts"]) - 1, -1, -1):
            cands.append(("burst", bi, None))
        for bi in range(len(best["bursts"]) - 1, -1, -1):
            for oi in range(len(best["bursts"][bi]) - 1, -1, -1):
                cands.append(("op", bi, oi))
        for ii in range(len(best["init"]) - 1, -1, -1):
            cands.append(("init", ii, None))
        for kind, i, j in cands:
            if n >= budget:
                break
            c = {"cfg": dict(best["cfg"]), "init": [list(o) for o in best["init"]], "bursts": [[list(o) for o in b] for b in best["bursts"]]}
            if kind == "burst":
                del c["bursts"][i]
            elif kind == "op":
                del c["bursts"][i][j]
                if not c["bursts"][i]:
                    del c["bursts"][i]
            else:
                del c["init"][i]
            if not c["bursts"]:
                continue
            try:
                m = fsops.model_after_init(c["init"])
            except (ValueError, KeyError):
                continue
            if not fsops.check_pacing(c["bursts"], m):
                continue
            n += 1
            r = still_fails(c)
            if r is not None and r.signature.split(":")[0] == bestv.signature.split(":")[0]:
                best, bestv = c, r
                changed = True
                break
    return best, bestv


# ----------------------------------------------------------------------------- generators

BUFSIZES = [None, None, 272, 400, 1024]


@st.composite
def cases(draw, tier, opts_extra=None):
    cfg = {
        "recursive": draw(st.sampled_from([True, True, False])),
        "bytes": draw(st.sampled_from([False, False, True])),
        "bufsize": draw(st.sampled_from(BUFSIZES)),
        "full": draw(st.sampled_from([False, False, True])),
    }
    opts = {"max_bursts": 4 if tier == "quick" else 8, "max_ops": 6, "move_in_replace": True}
    if opts_extra:
        opts.update(opts_extra)
    h = draw(fsops.histories(opts))
    return {"cfg": cfg, "init": h["init"], "bursts": h["bursts"]}


START_STATES = [
    [],
    [["mkdir", "a"], ["create", "a/ab"], ["prebuild", "o1", [["a", "f"]], "d"]],
    [["mkdir", "a"], ["mkdir", "a/a"], ["mkdir", "ab"], ["create", "ab/a"], ["prebuild", "o1", [], "f"]],
]


# longer fixed histories that the bounded enumeration cannot reach (depth 3, 3+ ops)
SCENARIOS = [
    # a tree moved in from outside replaces an existing empty directory, then something happens in its sub-directory
    ([["mkdir", "b"], ["prebuild", "o1", [["a", "d"], ["a/ab", "f"]], "d"]], [[["move_in", "o1", "b"]], [["create", "b/a/a"]], [["mkdir", "b/a/b"]], [["rename", "b/a", "ab"]]]),
    ([["mkdir", "a"], ["mkdir", "a/b"], ["prebuild", "o1", [["a", "d"]], "d"]], [[["move_in", "o1", "a/b"], ["rename", "a", "ab"]], [["create", "ab/b/a/a"]]]),
    # a file moved in from outside replaces a file
    ([["create", "a"], ["prebuild", "o1", [], "f"]], [[["move_in", "o1", "a"]], [["unlink", "a"]]]),
    # a directory leaves and comes straight back under another name, then something happens inside
    ([["mkdir", "a"], ["mkdir", "a/ab"]], [[["move_out", "a", "x0"], ["move_in", "x0", "b"]], [["create", "b/ab/a"]]]),
    # ... then a new directory takes the old name and is renamed, then something happens below the directory that came back
    ([["mkdir", "a"], ["mkdir", "a/ab"]], [[["move_out", "a", "x0"], ["move_in", "x0", "b"]], [["mkdir", "a"]], [["rename", "a", "ab"]], [["mkdir", "b/ab/b"]], [["rename", "b/ab/b", "b/ab/ab"]], [["create", "ab/a"]]]),
]


def exhaustive_histories(maxlen):
    opts = {"names": ["a", "ab"], "depth": 2, "move_in_replace": True}
    for init in START_STATES:
        m0 = fsops.model_after_init(init)

        def rec(m, prefix):
            if prefix:
                yield list(prefix)
            if len(prefix) >= maxlen:
                return
            for op in fsops.candidate_ops(m, opts):
                if op[0] == "move_out":
                    op = ("move_out", op[1], f"x{len(prefix)}")
                if op[0] in ("read", "chmod") and prefix:
                    continue  # keep the product small: these never change the tree
                m2 = m.copy()
                fsops.apply_op(m2, op)
                yield from rec(m2, prefix + [list(op)])

        for seq in rec(m0, []):
            # variant 1: drained after every op; variant 2: back to back if the pacing rule allows
            yield init, [[op] for op in seq]
            if len(seq) >= 2 and fsops.check_pacing([seq], m0):
                yield init, [seq]


# ----------------------------------------------------------------------------- known-finding exclusions


def exclusion_opts():
    known = runner.known_ids(ID)
    return known


# ----------------------------------------------------------------------------- shards

NSH = 16


def shards(tier, seed):
    return [(k, tier, seed, i) for i in range(NSH) for k in ("hyp", "exh")]


def _record(st_, case, n, every):
    nt, cl = is_nontrivial(case)
    cfgc = [("recursive" if case["cfg"]["recursive"] else "non-recursive"), ("bytes" if case["cfg"].get("bytes") else "str"), f"buf={case['cfg'].get('bufsize')}", "full-emitter" if case["cfg"].get("full") else "normal-emitter"]
    if arrive_then_rename(case):
        cl.append("arrive-then-rename")
    st_.case([case["cfg"], fsops.normalized_history(case)], nt, cl + cfgc, sample=case if n % every == 1 else None)


def run_shard(spec):
    kind, tier, seed, i = spec
    st_ = Stats()
    if kind == "exh":
        maxlen = 2
        n = 0
        st_.exhaustive = True
        cfgs = [{"recursive": True}, {"recursive": False}, {"recursive": True, "full": True}] if tier == "thorough" else [{"recursive": True}, {"recursive": True, "full": True}]
        todo = [(-1, sc) for j, sc in enumerate(SCENARIOS) if j % NSH == i] + list(enumerate(exhaustive_histories(maxlen)))
        for k, (init, bursts) in todo:
            if k >= 0 and k % NSH != i:
                continue
            if k >= 0 and tier == "quick" and (k // NSH) % 4 != seed % 4:
                st_.exhaustive = False
                continue
            for cfg in cfgs:
                case = {"cfg": dict(cfg), "init": init, "bursts": bursts}
                n += 1
                try:
                    run_case(case)
                except Violation as v:
                    case2, v2 = minimize(case, v, budget=10)
                    st_.fail(case2, v2.message, v2.signature, v2.extra)
                    st_.exhaustive = False
                    continue
                _record(st_, case, n, 200)
        st_.extra["exhaustive_histories"] = n
        return st_
    n_examples = 150 if tier == "quick" else 2500
    count = [0]

    def body(case):
        count[0] += 1
        run_case(case)
        _record(st_, case, count[0], 40)

    res = runner.hyp_search(cases(tier), body, seed=runner.derive_seed(seed, ID, i), max_examples=n_examples, shrink=False)
    if res is not None:
        case, v = res
        case2, v2 = minimize(case, v)
        st_.fail(case2, v2.message, v2.signature, v2.extra)
    st_.extra["random_histories"] = count[0]
    return st_


def replay(case):
    out = []
    for _ in range(3):
        try:
            run_case(case)
        except Violation as v:
            out.append(runner.Failure(case, v.message, v.signature, v.extra))
            break
    return out
