"""C16 - the event queue drops only true consecutive duplicates and never anything else.

(a) sequential: every put/get sequence up to a length bound over items {A, A' (equal, distinct object), B, C}
    against a nondeterministic reference (a drop is *permitted*, never required);
(b) concurrent: producers x consumer under the deterministic scheduler, every recorded history checked for
    linearizability against the same sequential specification (added by vlib.dsched, see run_conc);
(c) equality / hash law over pairs of event objects.
"""

from __future__ import annotations

import itertools
import queue

from hypothesis import strategies as st

from vlib import runner
from vlib.runner import Stats, Violation

ID = "C16"
LEVEL = "exploration"
DESIGN_REF = "DESIGN.md §4 C16"
RULE = (
    "(a) all sequences of put(A|A'|B)/get_nowait of length <= L (quick 7, thorough 9) on the real EventQueue plus all of "
    "length <= 5 (thorough 6) that also use C (same event, watch with the other recursive flag) or D (same event, same "
    "watch but for its event filter); A' == A but a distinct object, items are (event, watch) tuples as the observer "
    "queues them, and which items count as equal is written down in the check, not taken from the library's __eq__; (b) concurrent "
    "histories of 1-3 producers and a consumer under generated schedules, checked for linearizability; (c) Hypothesis "
    "pairs of event objects over all classes, str/bytes paths, synthetic flag; (d) a backlog of 20000-300000 distinct "
    "events fed through EventEmitter.queue_event() into the observer's own queue with nobody consuming: all come out, in "
    "order.  non-trivial (a/b) = an equal item is "
    "offered while its twin is still queued, or right after it was dequeued, or separated by a different item; (c) = "
    "pairs that agree in all fields but the class, or are equal; distinct = the sequence / pair itself"
)
ASSUMPTIONS = [
    "sequential specification: FIFO; put(x) MAY be dropped iff the queue is non-empty and its most recently enqueued element equals x; nothing else is ever lost",
    "unbounded queue (the observer's default); the stop sentinel is an ordinary item",
]

GET = "get"


def make_items():
    from watchdog.events import FileCreatedEvent, FileModifiedEvent
    from watchdog.observers.api import ObservedWatch

    w = ObservedWatch("/r", recursive=True)
    return {
        "A": (FileCreatedEvent("/r/a"), w),
        "A'": (FileCreatedEvent("/r/a"), ObservedWatch("/r", recursive=True)),
        "B": (FileModifiedEvent("/r/a"), w),
        "C": (FileCreatedEvent("/r/a"), ObservedWatch("/r", recursive=False)),
        "D": (FileCreatedEvent("/r/a"), ObservedWatch("/r", recursive=True, event_filter=[FileCreatedEvent])),
    }


# which items are "equal" is the statement's notion (same class, same field values; same watch = same path, recursive
# flag and filter), written down here and not taken from the library's __eq__
CLASS = {"A": 1, "A'": 1, "B": 2, "C": 3, "D": 4}


def spec_step(states, op, items, result=None):
    """states: set of tuples (queue contents as tuple of item names).  Returns new set after op;
    for GET filters by the observed result (name or None for Empty)."""
    new = set()
    if op == GET:
        for q in states:
            if not q:
                if result is None:
                    new.add(q)
            elif result is not None and q[0] == result:
                new.add(q[1:])
        return new
    for q in states:
        new.add(q + (op,))
        if q and CLASS[q[-1]] == CLASS[op]:
            new.add(q)  # permitted drop
    return new


def run_sequence(seq):
    from watchdog.observers.api import EventQueue

    items = make_items()
    names = {id(v): k for k, v in items.items()}
    q = EventQueue()
    states = {()}
    trace = []
    for op in seq:
        if op == GET:
            try:
                got = q.get_nowait()
                res = names[id(got)]
            except queue.Empty:
                res = None
            trace.append((GET, res))
            states = spec_step(states, GET, items, res)
        else:
            q.put(items[op])
            trace.append((op,))
            states = spec_step(states, op, items)
        if not states:
            raise Violation(f"sequence {seq}: observed {trace} is not a behaviour of the specification", "seq-not-in-spec")
    # drain: what is left must be a possible remainder
    rest = []
    while True:
        try:
            rest.append(names[id(q.get_nowait())])
        except queue.Empty:
            break
    if tuple(rest) not in states:
        raise Violation(f"sequence {seq}: remaining content {rest} not in {sorted(states)} (trace {trace})", "seq-remainder")
    return classify_seq(seq)


def classify_seq(seq):
    items = CLASS
    cl = set()
    qd = []
    last_got = None
    for op in seq:
        if op == GET:
            last_got = qd.pop(0) if qd else None
        else:
            if qd and items[qd[-1]] == items[op]:
                cl.add("twin-still-queued")
            elif last_got is not None and items[last_got] == items[op] and not qd:
                cl.add("twin-just-dequeued")
            elif len(qd) >= 2 and items[qd[-2]] == items[op]:
                cl.add("twin-separated-by-other")
            qd.append(op)
            last_got = None
    return bool(cl), sorted(cl)


# ----------------------------------------------------------------------------- equality law


def ev_classes():
    from watchdog import events as ev

    return [ev.FileSystemEvent, ev.FileSystemMovedEvent, ev.FileCreatedEvent, ev.FileDeletedEvent, ev.FileModifiedEvent,
            ev.FileMovedEvent, ev.FileClosedEvent, ev.FileClosedNoWriteEvent, ev.FileOpenedEvent, ev.DirCreatedEvent,
            ev.DirDeletedEvent, ev.DirModifiedEvent, ev.DirMovedEvent]  # fmt: skip


PATH = st.sampled_from(["a", "b", "", "a/b", b"a", b"b", b""])


@st.composite
def ev_spec(draw):
    return (draw(st.integers(0, 12)), draw(PATH), draw(PATH), draw(st.booleans()))


def build_event(spec):
    ci, src, dest, syn = spec
    return ev_classes()[ci](src, dest, is_synthetic=syn)


def check_equality(pair):
    from watchdog.observers.api import ObservedWatch

    sa, sb = pair
    a, b = build_event(sa), build_event(sb)
    fa = (type(a), a.src_path, a.dest_path, a.event_type, a.is_directory, a.is_synthetic)
    fb = (type(b), b.src_path, b.dest_path, b.event_type, b.is_directory, b.is_synthetic)
    exp = fa[0] is fb[0] and all(type(x) is type(y) and x == y for x, y in zip(fa[1:], fb[1:]))
    if (a == b) != exp:
        raise Violation(f"{a!r} == {b!r} is {a == b}, expected {exp}", "event-eq")
    if (a != b) != (not exp):
        raise Violation(f"{a!r} != {b!r} is {a != b}, expected {not exp}", "event-ne")
    if exp and hash(a) != hash(b):
        raise Violation(f"equal events with different hashes: {a!r}", "event-hash")
    w1, w2 = ObservedWatch("/r", recursive=True), ObservedWatch("/r", recursive=True)
    if ((a, w1) == (b, w2)) != exp:
        raise Violation(f"(event, watch) tuples: {(a, w1)} == {(b, w2)} is {(a, w1) == (b, w2)}, expected {exp}", "tuple-eq")
    for w3 in (ObservedWatch("/r", recursive=False), ObservedWatch("/r", recursive=True, event_filter=[type(a)]), ObservedWatch("/r", recursive=True, event_filter=[]), ObservedWatch("/r2", recursive=True)):
        if (a, w1) == (a, w3) or not ((a, w1) != (a, w3)):
            raise Violation(f"(event, watch) tuples with different watches compare equal: {w1} and {w3}", "tuple-eq")
    same_fields = fa[1:] == fb[1:]
    return exp or (same_fields and fa[0] is not fb[0]), ["eq:equal" if exp else ("eq:same-fields-other-class" if same_fields else "eq:different")]


# ----------------------------------------------------------------------------- a large backlog (real threads)

BACKLOGS = {"quick": (20000, 70000), "thorough": (70000, 300000)}


def run_backlog(n, full):
    """The queue an observer hands to its emitters, fed through EventEmitter.queue_event() with n distinct events while
    nobody consumes (a handler that stalls): afterwards all n are taken out, in order.  `full`: every event twice in a
    row (the second one may be dropped) plus an equal event after a different one (must stay)."""
    import threading

    from watchdog.events import FileCreatedEvent, FileModifiedEvent, FileSystemEventHandler
    from watchdog.observers.api import BaseObserver, EventEmitter

    obs = BaseObserver(EventEmitter, timeout=0.001)
    watch = obs.schedule(FileSystemEventHandler(), "/r", recursive=True)
    (em,) = obs.emitters
    done = threading.Event()
    err = []

    def feed():
        try:
            for k in range(n):
                e = FileCreatedEvent(f"/r/f{k}")
                em.queue_event(e)
                if full:
                    em.queue_event(FileCreatedEvent(f"/r/f{k}"))  # consecutive duplicate
                    if k % 1000 == 0:
                        em.queue_event(FileModifiedEvent(f"/r/f{k}"))
                        em.queue_event(FileCreatedEvent(f"/r/f{k}"))  # equal to an earlier one, but not consecutive
        except Exception as ex:  # noqa: BLE001
            err.append(ex)
        done.set()

    t = threading.Thread(target=feed, daemon=True)
    t.start()
    if not done.wait(120):
        raise runner.Inconclusive(f"EventEmitter.queue_event() did not take {n} events within 120 s with nobody consuming (size now {obs.event_queue.qsize()})")
    if err:
        raise Violation(f"EventEmitter.queue_event() raised {err[0]!r} with {obs.event_queue.qsize()} entries waiting", "backlog-raised")
    got = []
    while True:
        try:
            got.append(obs.event_queue.get_nowait())
        except queue.Empty:
            break
    names = [e.src_path for e, w in got if isinstance(e, FileCreatedEvent)]
    want = []
    for k in range(n):
        want.append(f"/r/f{k}")
        if full and k % 1000 == 0:
            want.append(f"/r/f{k}")
    # a consecutive duplicate may or may not have been dropped: collapse both sides
    coll = [x for j, x in enumerate(names) if j == 0 or names[j - 1] != x or (full and False)]
    if not full and names != want:
        lost = len(want) - len(names)
        raise Violation(f"{n} distinct events queued with nobody consuming, {len(names)} came out ({lost} lost; first difference at {next((j for j, (a, b) in enumerate(zip(names, want)) if a != b), min(len(names), len(want)))})", "backlog-lost")
    if full:
        it = iter(names)
        if not all(any(x == y for y in it) for x in want):
            raise Violation(f"backlog of {n} events with duplicates: the required events are not a sub-sequence of what came out ({len(names)} entries)", "backlog-lost")
        if len(names) > 2 * n + len(want):
            raise Violation("more entries came out than were put", "backlog-invented")
    if any(w is not watch and w != watch for e, w in got):
        raise Violation("an entry came out with another watch", "backlog-watch")
    return True, ["backlog", f"backlog>={n}"]


# ----------------------------------------------------------------------------- shards

NSH = 16
OPS = ["A", "A'", "B", "C", "D", GET]


def seqs(tier):
    L = 7 if tier == "quick" else 9
    ops = ["A", "A'", "B", GET]
    for n in range(0, L + 1):
        yield from itertools.product(ops, repeat=n)
    # longer sequences with the 4th item (same event, other watch) on a sample basis: all of length <= 6 over 5 ops
    for n in range(1, 6 if tier == "quick" else 7):
        for s in itertools.product(OPS, repeat=n):
            if "C" in s or "D" in s:
                yield s


def shards(tier, seed):
    out = [("seq", tier, seed, i) for i in range(NSH)] + [("eq", tier, seed, i) for i in range(4)] + [("backlog", tier, seed, i) for i in range(2)]
    try:
        from props import c16_conc  # noqa: F401

        out += c16_conc.shards(tier, seed)
    except ImportError:
        pass
    return out


def run_shard(spec):
    kind, tier, seed, i = spec[:4]
    if kind == "conc":
        from props import c16_conc

        return c16_conc.run_shard(spec)
    st_ = Stats()
    if kind == "backlog":
        try:
            nt, cl = run_backlog(BACKLOGS[tier][i], full=bool(i))
            st_.case(["backlog", i, tier], nt, cl)
        except Violation as v:
            st_.fail({"kind": "backlog", "n": BACKLOGS[tier][i], "full": bool(i)}, v.message, v.signature)
        return st_
    if kind == "seq":
        st_.exhaustive = True
        n = 0
        for k, s in enumerate(seqs(tier)):
            if k % NSH != i:
                continue
            n += 1
            try:
                nt, cl = run_sequence(s)
            except Violation as v:
                st_.fail({"kind": "seq", "seq": list(s)}, v.message, v.signature)
                st_.exhaustive = False
                break
            st_.case(["seq", list(s)], nt, ["seq"] + cl, sample={"seq": list(s)} if n % 4000 == 1 else None)
        st_.extra["sequences"] = n
        return st_
    count = [0]

    def body(pair):
        count[0] += 1
        nt, cl = check_equality(pair)
        st_.case(["eq", pair], nt, cl, sample={"pair": pair} if count[0] % 1500 == 1 else None)

    @st.composite
    def pair(draw):
        a = draw(ev_spec())
        mode = draw(st.integers(0, 4))
        if mode == 0:
            return a, a
        if mode == 1:
            return a, (draw(st.integers(0, 12)), a[1], a[2], a[3])
        if mode == 2:
            return a, (a[0], draw(PATH), a[2], a[3])
        if mode == 3:
            return a, (a[0], a[1], a[2], not a[3])
        return a, draw(ev_spec())

    res = runner.hyp_search(pair(), body, seed=runner.derive_seed(seed, ID, i), max_examples=4000 if tier == "quick" else 40000)
    if res is not None:
        pair, v = res
        st_.fail({"kind": "eq", "pair": pair}, v.message, v.signature)
    return st_


def replay(case):
    try:
        if case["kind"] == "backlog":
            run_backlog(case["n"], full=case["full"])
        elif case["kind"] == "seq":
            run_sequence(tuple(case["seq"]))
        elif case["kind"] == "eq":
            check_equality(tuple(tuple(x) for x in case["pair"]))
        else:
            from props import c16_conc

            return c16_conc.replay(case)
    except Violation as v:
        return [runner.Failure(case, v.message, v.signature)]
    return []
