"""C20 - the Windows and macOS translation layers meet the same contract on well-formed input.

(A) buffer round-trips: encoders written here for FILE_NOTIFY_INFORMATION (Windows) and inotify_event (Linux);
    decode(encode(records)) == records for every record count, name length and padding.
(W) Windows emitter and (F) FSEvents emitter under simulated native semantics: C01's histories are executed on a
    real scratch directory, a renderer written from the platform documentation turns each op into native
    notifications, and each batch is handed to emitter.queue_events() after its ops ran (both emitters stat at
    processing time).  Oracles: C01's replay, the rename clause, boundary moves, FSEvents non-recursive scope.
"""

from __future__ import annotations

import os
import queue
import shutil
import struct

from hypothesis import strategies as st

from props import c01
from vlib import fsops, runner, shims, simkernel as sk
from vlib.runner import Stats, Violation

ID = "C20"
LEVEL = "exploration"
DESIGN_REF = "DESIGN.md §4 C20"
RULE = (
    "(A) Hypothesis record lists: 1-40 records, names of length 0-255 over an alphabet with BMP, astral and byte-order-mark "
    "characters (U+FEFF, U+FFFE), all paddings.  (W)/(F) cases = (emitter in {windows, fsevents}, recursive flag, C01 "
    "history, FSEvents: coalescing on/off + batch cuts); exhaustive: every history of length <= 2 over names {a,b} from 3 "
    "start states x both emitters x recursive flag; random: Hypothesis histories of 1-4 bursts.  non-trivial = a batch with "
    "a directory rename with descendants, a coalesced item, or a boundary move; (A): a name starting with a byte-order "
    "mark or longer than 127 code units, or >= 2 records; distinct = digest of the case"
)
ASSUMPTIONS = [
    "renderers written from the platform documentation (trusted base): Windows - ADDED/REMOVED/MODIFIED (+ MODIFIED of a non-root parent), RENAMED_OLD+NEW for a same-directory rename, REMOVED+ADDED for cross-directory moves and boundary crossings, per-child REMOVED for recursive deletes, OLD/NEW never split across two reads; FSEvents - per-item events with inode and IsFile/IsDir, a rename as two events with the same inode (one if the other side is outside), only adjacent same item+path events are coalesced (flags OR-ed), arbitrary batch cuts",
    "replace (rename over an existing entry) is not rendered: the documentation does not say which notifications it produces",
    "the flavour of Windows deleted events is not judged (the platform cannot know it); 'one moved event' is asserted only when both native halves were delivered in one batch",
    "the winapi module is imported on Linux with ctypes.wintypes.DWORD = c_uint32 and a WinDLL stand-in; fsevents with a pure-Python _watchdog_fsevents.NativeEvent (vlib/shims.py)",
]

# ============================================================================ (A) round trips


def encode_fni(records):
    """FILE_NOTIFY_INFORMATION chain: DWORD NextEntryOffset, DWORD Action, DWORD FileNameLength (bytes), WCHAR FileName[]; every
    record DWORD aligned, the last one has NextEntryOffset 0."""
    out = b""
    for i, (action, name) in enumerate(records):
        raw = name.encode("utf-16-le", "surrogatepass")
        size = 12 + len(raw)
        padded = (size + 3) // 4 * 4
        nxt = 0 if i == len(records) - 1 else padded
        out += struct.pack("<III", nxt, action, len(raw)) + raw + b"\0" * (padded - size)
    return out


NAME_CHARS = st.sampled_from(["a", "B", "é", "☃", "﻿", "￾", "𝄞", " ", ".", "漢", "z"])


@st.composite
def fni_records(draw):
    n = draw(st.integers(1, 40))
    recs = []
    for _ in range(n):
        ln = draw(st.one_of(st.integers(0, 12), st.integers(0, 255)))
        first = draw(st.sampled_from(["", "", "﻿", "￾"]))
        body = "".join(draw(st.lists(NAME_CHARS, min_size=0, max_size=6))) if ln <= 12 else draw(NAME_CHARS) * ln
        name = (first + body)[: max(ln, 0)] if ln else ""
        # a FILE_NOTIFY_INFORMATION name is counted in UTF-16 code units; keep it <= 255 units
        while len(name.encode("utf-16-le")) > 510:
            name = name[:-1]
        recs.append((draw(st.sampled_from([1, 2, 3, 4, 5])), name))
    return recs


def check_fni(recs):
    w, _ = shims.load_winapi()
    buf = encode_fni(recs)
    got = w._parse_event_buffer(buf, len(buf))
    exp = [(a, n) for a, n in recs]
    if got != exp:
        bad = next((i for i, (g, e) in enumerate(zip(got, exp)) if g != e), min(len(got), len(exp)))
        raise Violation(
            f"FILE_NOTIFY_INFORMATION round trip: record {bad} encoded as {exp[bad] if bad < len(exp) else None!r} decoded as {got[bad] if bad < len(got) else None!r} ({len(exp)} records encoded, {len(got)} decoded)",
            "fni-roundtrip" + (":bom" if bad < len(exp) and exp[bad][1][:1] in ("﻿", "￾") else ""),
        )
    check_read_events(w, recs, buf)
    return len(recs) >= 2 or any(n[:1] in ("﻿", "￾") or len(n) > 127 for _, n in recs), ["roundtrip:fni"] + (["bom-name"] if any(n[:1] in ("﻿", "￾") for _, n in recs) else [])


def check_read_events(w, recs, buf):
    """The same records through the whole read path: winapi.read_events() over a stand-in ReadDirectoryChangesW that
    fills the caller's buffer; plus its two error exits (operation aborted: nothing; watched directory deleted: the one
    record the library encodes itself)."""
    import ctypes

    saved = (w.ReadDirectoryChangesW, w.GetFinalPathNameByHandleW)
    real_read_events = w.read_events

    def read_events(*a, **k):
        try:
            return real_read_events(*a, **k)
        except Exception as ex:  # noqa: BLE001 - none of the three situations below may end in an exception
            raise Violation(f"winapi.read_events() raised {ex!r}", "fni-read-events:" + type(ex).__name__) from None

    try:
        if len(buf) <= w.BUFFER_SIZE:

            def fill(handle, pbuf, size, recursive, flags, pn, a, b):
                ctypes.memmove(pbuf._obj, buf, len(buf))
                pn._obj.value = len(buf)

            w.ReadDirectoryChangesW = fill
            got = read_events(1, "C:\\w", recursive=True)
            exp = [w.WinAPINativeEvent(a, n) for a, n in recs]
            if got != exp:
                bad = next((i for i, (g, e) in enumerate(zip(got or [], exp)) if g != e), min(len(got or []), len(exp)))
                raise Violation(f"winapi.read_events(): record {bad} of {len(exp)} encoded as {exp[bad] if bad < len(exp) else None!r} came out as {(got[bad] if got and bad < len(got) else None)!r}", "fni-read-events")

        def aborted(*a):
            e = OSError("operation aborted")
            e.winerror = w.ERROR_OPERATION_ABORTED
            raise e

        w.ReadDirectoryChangesW = aborted
        got = read_events(1, "C:\\w", recursive=True)
        if got != []:
            raise Violation(f"winapi.read_events() after ERROR_OPERATION_ABORTED returned {got!r}, expected no records", "fni-read-events")

        def failed(*a):
            e = OSError("access denied")
            e.winerror = 5
            raise e

        def final_path(handle, pbuf, size, flags):
            pbuf.value = "\\Device\\elsewhere"

        w.ReadDirectoryChangesW = failed

        def same_path(handle, pbuf, size, flags):
            pbuf.value = "C:\\w"

        w.GetFinalPathNameByHandleW = same_path
        try:
            got = real_read_events(1, "C:\\w", recursive=True)
        except OSError:
            got = "raised"
        except Exception as ex:  # noqa: BLE001
            got = repr(ex)
        if got != "raised":
            raise Violation(f"winapi.read_events(): ReadDirectoryChangesW failed while the watched directory is still there - expected the OSError, got {got!r}", "fni-read-events")
        w.GetFinalPathNameByHandleW = final_path
        got = read_events(1, "C:\\w", recursive=True)
        if not (isinstance(got, list) and len(got) == 1 and got[0].is_removed_self):
            raise Violation(f"winapi.read_events() for a watched directory that was deleted returned {got!r}, expected the one 'removed self' record", "fni-read-events")
    finally:
        w.ReadDirectoryChangesW, w.GetFinalPathNameByHandleW = saved


@st.composite
def ino_records(draw):
    n = draw(st.integers(1, 40))
    recs = []
    for _ in range(n):
        ln = draw(st.one_of(st.integers(0, 12), st.integers(0, 255)))
        name = bytes(draw(st.lists(st.integers(1, 255), min_size=ln, max_size=ln)))
        recs.append((draw(st.integers(-1, 1000)), draw(st.integers(0, 2**32 - 1)), draw(st.integers(0, 2**32 - 1)), name, draw(st.sampled_from([1, 4, 16, 32]))))
    return recs


def check_ino(recs):
    from watchdog.observers.inotify_c import Inotify

    buf = b"".join(sk.encode_event(wd, mask, cookie, name, pad_to=pad) for wd, mask, cookie, name, pad in recs)
    got = list(Inotify._parse_event_buffer(buf))
    exp = [(wd, mask, cookie, name) for wd, mask, cookie, name, pad in recs]
    if got != exp:
        raise Violation(f"inotify_event round trip: encoded {exp[:3]}... decoded {got[:3]}... ({len(exp)} vs {len(got)} records)", "inotify-roundtrip")
    return len(recs) >= 2, ["roundtrip:inotify"]


# ============================================================================ scratch execution + renderers

ADDED, REMOVED, MODIFIED, OLD, NEW = 1, 2, 3, 4, 5
F = shims.FLAGS


class Scratch:
    n = 0

    def __init__(self, init_ops):
        Scratch.n += 1
        self.base = os.path.join(fsops.SCRATCH, f"vfx{os.getpid()}_{Scratch.n}")
        shutil.rmtree(self.base, ignore_errors=True)
        self.root = os.path.join(self.base, "root")
        self.out = os.path.join(self.base, "out")
        os.makedirs(self.root)
        os.makedirs(self.out)
        self.model = fsops.Model()
        for op in init_ops:
            fsops.apply_op(self.model, tuple(op))
            fsops.exec_op(tuple(op), self.root, self.out)

    def P(self, rel):
        return os.path.join(self.root, rel) if rel else self.root

    def run(self, op):
        """Execute op; return facts the renderers need."""
        op = tuple(op)
        k = op[0]
        m = self.model
        info = {"op": op}
        subj = op[1] if k not in ("move_in", "sleep") else None
        if k in ("rename", "move_out", "rmtree", "unlink", "rmdir", "write", "chmod", "read"):
            info["kind"] = m.kind(op[1])
            info["ino"] = os.lstat(self.P(op[1])).st_ino
            info["sub"] = [(q, v[0], os.lstat(self.P(q)).st_ino) for q, v in sorted(m.sub(op[1]).items())]
        if k == "move_in":
            sub = m.out[op[1]]
            info["kind"] = sub[""][0]
            info["ino"] = os.lstat(os.path.join(self.out, op[1])).st_ino
        fsops.apply_op(m, op)
        fsops.exec_op(op, self.root, self.out)
        if k in ("create", "mkdir", "makedirs"):
            info["kind"] = "f" if k == "create" else "d"
            info["ino"] = os.lstat(self.P(op[1])).st_ino
            if k == "makedirs":
                info["content"] = [(fsops.join(op[1], rel), kind, os.lstat(self.P(fsops.join(op[1], rel))).st_ino) for rel, kind in op[2]]
        return info

    def close(self):
        shutil.rmtree(self.base, ignore_errors=True)


def render_windows(info, recursive):
    """-> list of (action, name relative to the root)."""
    op = info["op"]
    k = op[0]
    ev = []

    def parent_mod(p):
        par = fsops.parent(p)
        if par != "":
            ev.append((MODIFIED, par))

    if k == "create" or k == "mkdir":
        ev.append((ADDED, op[1]))
        parent_mod(op[1])
    elif k == "makedirs":
        ev.append((ADDED, op[1]))
        parent_mod(op[1])
        for q, kind, ino in info["content"]:
            ev.append((ADDED, q))
            parent_mod(q)
    elif k in ("write", "chmod"):
        ev.append((MODIFIED, op[1]))
    elif k in ("unlink", "rmdir"):
        ev.append((REMOVED, op[1]))
        parent_mod(op[1])
    elif k == "rmtree":
        for q, kind, ino in sorted(info["sub"], key=lambda x: -x[0].count("/")):
            ev.append((REMOVED, q))
            parent_mod(q)
    elif k == "rename":
        s, d = op[1], op[2]
        if fsops.parent(s) == fsops.parent(d):
            ev += [(OLD, s), (NEW, d)]
            parent_mod(s)
        else:
            ev.append((REMOVED, s))
            parent_mod(s)
            ev.append((ADDED, d))
            parent_mod(d)
    elif k == "move_out":
        ev.append((REMOVED, op[1]))
        parent_mod(op[1])
    elif k == "move_in":
        ev.append((ADDED, op[2]))
        parent_mod(op[2])
    if not recursive:
        ev = [(a, n) for a, n in ev if "/" not in n]
    return ev


def render_fsevents(info, root):
    """-> list of [path, inode, flags]."""
    op = info["op"]
    k = op[0]
    P = lambda rel: os.path.join(root, rel)  # noqa: E731
    K = lambda kind: F["is_directory"] if kind == "d" else F["is_file"]  # noqa: E731
    ev = []
    if k in ("create", "mkdir"):
        ev.append([P(op[1]), info["ino"], F["is_created"] | K(info["kind"])])
    elif k == "makedirs":
        ev.append([P(op[1]), info["ino"], F["is_created"] | F["is_directory"]])
        for q, kind, ino in info["content"]:
            ev.append([P(q), ino, F["is_created"] | K(kind)])
    elif k == "write":
        ev.append([P(op[1]), info["ino"], F["is_modified"] | F["is_file"]])
    elif k == "chmod":
        ev.append([P(op[1]), info["ino"], F["is_inode_meta_mod"] | K(info["kind"])])
    elif k in ("unlink", "rmdir"):
        ev.append([P(op[1]), info["ino"], F["is_removed"] | K(info["kind"])])
    elif k == "rmtree":
        for q, kind, ino in sorted(info["sub"], key=lambda x: -x[0].count("/")):
            ev.append([P(q), ino, F["is_removed"] | K(kind)])
    elif k == "rename":
        ev.append([P(op[1]), info["ino"], F["is_renamed"] | K(info["kind"])])
        ev.append([P(op[2]), info["ino"], F["is_renamed"] | K(info["kind"])])
    elif k == "move_out":
        ev.append([P(op[1]), info["ino"], F["is_renamed"] | K(info["kind"])])
    elif k == "move_in":
        ev.append([P(op[2]), info["ino"], F["is_renamed"] | K(info["kind"])])
    return ev


def coalesce(evs):
    out = []
    for e in evs:
        if out and out[-1][0] == e[0] and out[-1][1] == e[1]:
            out[-1] = [e[0], e[1], out[-1][2] | e[2]]
        else:
            out.append(list(e))
    return out


# ============================================================================ translation check


def run_translation(case):
    from watchdog import events as wev
    from watchdog.observers.api import ObservedWatch

    emitter = case["emitter"]
    rec = bool(case["recursive"])
    sc = Scratch(case["init"])
    info_cl = set()
    try:
        root = sc.root
        q = queue.Queue()
        as_bytes = bool(case.get("bytes")) and emitter == "fsevents"
        watch = ObservedWatch(os.fsencode(root) if as_bytes else root, recursive=rec)
        if emitter == "windows":
            w, r = shims.load_winapi()
            em = r.WindowsApiEmitter(q, watch)
            em._whandle = 1
        else:
            f, mod = shims.load_fsevents()
            em = f.FSEventsEmitter(q, watch)
            if case.get("neighbour"):
                # another emitter of the same process watches the directory above and has already seen every entry that
                # exists now (those inside the tree and those that will be moved in later): nothing it knows may leak
                # into this emitter's idea of the tree
                q0 = queue.Queue()
                em0 = f.FSEventsEmitter(q0, ObservedWatch(sc.base, recursive=True))
                seen = []
                for dp, dns, fns in os.walk(sc.base):
                    for n in dns + fns:
                        pth = os.path.join(dp, n)
                        stt = os.lstat(pth)
                        seen.append(mod.NativeEvent(pth, stt.st_ino, F["is_created"] | (F["is_directory"] if os.path.isdir(pth) else F["is_file"]), 0))
                em0.queue_events(0, seen)
                info_cl.add("second-emitter-in-process")
        replay = {p: v[0] for p, v in sc.model.tree.items()}

        def norm(p):
            if isinstance(p, bytes):
                p = os.fsdecode(p)
            if p == root:
                return ""
            return p[len(root) + 1 :] if p.startswith(root + "/") else None

        nontrivial = False
        for bi, burst in enumerate(case["bursts"]):
            native = []
            facts = []
            before = sc.model.copy()
            for op in burst:
                if op[0] in ("sleep", "read"):
                    continue
                info = sc.run(op)
                facts.append((info, before.copy()))
                native += [(info, e) for e in (render_windows(info, rec) if emitter == "windows" else render_fsevents(info, root))]
                before = sc.model.copy()
            # batches
            if emitter == "windows":
                batches = [[e for _, e in native]]
            else:
                evs = [e for _, e in native]
                if case.get("coalesce"):
                    c2 = coalesce(evs)
                    if len(c2) < len(evs):
                        info_cl.add("coalesced-item")
                        nontrivial = True
                    evs = c2
                cuts = list(case.get("cuts") or [])
                batches = []
                while evs:
                    n = cuts.pop(0) if cuts else len(evs)
                    batches.append(evs[: max(1, n)])
                    evs = evs[max(1, n) :]
            delivered_batches = []
            for b in batches:
                try:
                    if emitter == "windows":
                        em._read_events = lambda b=b: [w.WinAPINativeEvent(a, n) for a, n in b]
                        em.queue_events(0)
                    else:
                        if case.get("neighbour"):
                            # the watch on the directory above gets the same native events, first
                            em0.queue_events(0, [mod.NativeEvent(p, ino, fl, 0) for p, ino, fl in b])
                        em.queue_events(0, [mod.NativeEvent(p, ino, fl, 0) for p, ino, fl in b])
                except Exception as ex:  # noqa: BLE001 - the emitter thread would die with it
                    raise Violation(f"{emitter} emitter recursive={rec}, burst {bi} {burst}: queue_events() raised {ex!r} on the native batch {b}", "emitter-raised:" + type(ex).__name__) from None
                got = []
                while True:
                    try:
                        got.append(q.get_nowait()[0])
                    except queue.Empty:
                        break
                delivered_batches.append((b, got))
            delivered = [e for _, g in delivered_batches for e in g]
            desc = f"{emitter} emitter recursive={rec}, burst {bi} {burst}"
            for e in delivered:
                for p in (e.src_path, e.dest_path):
                    if p not in ("", b"") and isinstance(p, bytes) != as_bytes:
                        raise Violation(f"{desc}: {e!r} carries a {'bytes' if isinstance(p, bytes) else 'str'} path although the watch path is {'bytes' if as_bytes else 'str'}", "path-type")
            if as_bytes:
                info_cl.add("bytes-root")
                # the clauses below compare str paths
                delivered = [type(e)(os.fsdecode(e.src_path), os.fsdecode(e.dest_path) if e.dest_path else "", is_synthetic=e.is_synthetic) if isinstance(e, wev.FileSystemMovedEvent) else type(e)(os.fsdecode(e.src_path), is_synthetic=e.is_synthetic) for e in delivered]
            # (1) replay
            fsops.replay_events(replay, delivered, norm)
            real = fsops.disk_tree(root, recursive=rec)
            got_tree = fsops.scope(replay, rec)
            if emitter == "windows":
                # kinds of entries only ever named by flavour-less events are taken from disk
                pass
            if set(got_tree) != set(real) or any(got_tree[p] != real[p] for p in real):
                missing = {p: k for p, k in real.items() if got_tree.get(p) != k}
                extra = {p: k for p, k in got_tree.items() if real.get(p) != k}
                raise Violation(
                    f"{desc}: replaying the normalized stream does not give the tree on disk. on disk but not replayed: {missing}; replayed but not on disk: {extra}; "
                    f"native batches {[b for b, _ in delivered_batches]}; delivered {delivered}",
                    "replay:" + ("missing" if missing and not extra else ("stale" if extra and not missing else "both")),
                )
            # (2)-(4) per op clauses (only for entries that no other op of the same burst touches again: both emitters
            # stat at processing time, i.e. after the whole burst)
            def touched_again(idx, path):
                for j, (inf2, _) in enumerate(facts):
                    if j == idx:
                        continue
                    o = inf2["op"]
                    ps = [x for x in o[1:3] if isinstance(x, str)]
                    if any(p == path or p.startswith(path + "/") or path.startswith(p + "/") for p in ps):
                        return True
                return False

            for fi, (info, mb) in enumerate(facts):
                op = info["op"]
                k = op[0]
                if k in ("rename", "move_in", "move_out") and any(touched_again(fi, p) for p in ([op[1], op[2]] if k == "rename" else [op[2] if k == "move_in" else op[1]])):
                    continue
                if k == "rename":
                    s, d = op[1], op[2]
                    in_scope = rec or ("/" not in s and "/" not in d)
                    same_batch = emitter == "windows" and fsops.parent(s) == fsops.parent(d)
                    if emitter == "fsevents":
                        same_batch = any(sum(1 for e in b if e[1] == info["ino"] and e[2] & F["is_renamed"]) >= 2 for b, _ in delivered_batches) and not case.get("coalesce")
                    if in_scope and same_batch:
                        S, D = sc.P(s), sc.P(d)
                        moved = [e for e in delivered if isinstance(e, wev.FileSystemMovedEvent) and not e.is_synthetic and e.src_path == S and e.dest_path == D]
                        if len(moved) != 1:
                            raise Violation(f"{desc}: rename {s} -> {d} rendered in one batch gave {len(moved)} moved events with both paths; delivered {delivered}", "rename-not-one-moved-event")
                        if moved[0].is_directory != (info["kind"] == "d"):
                            raise Violation(f"{desc}: moved event for {s} has the wrong flavour: {moved[0]}", "moved-flavour")
                        if rec and info["kind"] == "d":
                            for qrel, kind, ino in info["sub"]:
                                if qrel == s:
                                    continue
                                exp_src, exp_dst = sc.P(qrel), sc.P(d + qrel[len(s) :])
                                syn = [e for e in delivered if isinstance(e, wev.FileSystemMovedEvent) and e.is_synthetic and e.src_path == exp_src and e.dest_path == exp_dst]
                                if len(syn) != 1:
                                    raise Violation(f"{desc}: descendant {qrel} of the renamed directory got {len(syn)} synthetic moved events; delivered {delivered}", "synthetic-moved-missing")
                            if len(info["sub"]) > 1:
                                nontrivial = True
                                info_cl.add("dir-rename-with-descendants")
                elif k == "move_in":
                    d = op[2]
                    nontrivial = True
                    info_cl.add("boundary-move")
                    # an entry that left and re-entered within one burst is one item to FSEvents (same inode): a plain move
                    if any(o[0] == "move_out" and o[2] == op[1] for o in burst):
                        continue
                    if rec or "/" not in d:
                        cr = [e for e in delivered if isinstance(e, (wev.FileCreatedEvent, wev.DirCreatedEvent)) and e.src_path == sc.P(d) and not e.is_synthetic]
                        if not cr:
                            raise Violation(f"{desc}: move into the tree gave no created event for {d}; delivered {delivered}", "move-in-not-created")
                elif k == "move_out":
                    s = op[1]
                    nontrivial = True
                    info_cl.add("boundary-move")
                    if any(o[0] == "move_in" and o[1] == op[2] for o in burst):
                        continue
                    if rec or "/" not in s:
                        de = [e for e in delivered if isinstance(e, (wev.FileDeletedEvent, wev.DirDeletedEvent)) and e.src_path == sc.P(s)]
                        if not de:
                            raise Violation(f"{desc}: move out of the tree gave no deleted event for {s}; delivered {delivered}", "move-out-not-deleted")
            if emitter == "windows":
                # every MODIFIED record of an entry that still exists becomes a modified event of that entry's flavour
                for b, got in delivered_batches:
                    for a, n in b:
                        if a == MODIFIED and os.path.lexists(os.path.join(root, n)):
                            want = wev.DirModifiedEvent if os.path.isdir(os.path.join(root, n)) else wev.FileModifiedEvent
                            if not any(type(e) is want and e.src_path == sc.P(n) for e in got):
                                raise Violation(f"{desc}: native MODIFIED({n}) gave no {want.__name__}({n}); delivered for that batch: {got}", "modified-missing")
            if not rec:
                # an event is out of scope if none of its paths is the root or a direct child (a direct child moved to a
                # deeper place is still an event about that child)
                deep = [e for e in delivered if all((norm(p) or "").count("/") >= 1 for p in (e.src_path, e.dest_path) if p)]
                if deep:
                    raise Violation(f"{desc}: non-recursive {'FSEvents' if emitter == 'fsevents' else 'Windows'} watch reported {deep[:3]} below the root's direct children", "nonrecursive-deep-event")
        if emitter == "windows" and case.get("root_deleted"):
            # the watched directory itself goes away: ReadDirectoryChangesW fails, the handle's final path is no longer the
            # watched path, the library encodes one 'removed self' record: one DirDeletedEvent(root), emitter stopped
            import ctypes  # noqa: F401

            def failed(*a):
                e = OSError("access denied")
                e.winerror = 5
                raise e

            def final_path(handle, pbuf, size, flags):
                pbuf.value = "\\Device\\elsewhere"

            saved = (w.ReadDirectoryChangesW, w.GetFinalPathNameByHandleW, w.CancelIoEx, w.CloseHandle)
            w.ReadDirectoryChangesW, w.GetFinalPathNameByHandleW = failed, final_path
            w.CancelIoEx = w.CloseHandle = lambda *a: None
            try:
                del em._read_events  # the real method: winapi.read_events(handle, path, recursive)
                try:
                    em.queue_events(0)
                except Exception as ex:  # noqa: BLE001
                    raise Violation(f"windows emitter recursive={rec}: queue_events() raised {ex!r} when the watched directory was deleted", "emitter-raised:" + type(ex).__name__) from None
            finally:
                w.ReadDirectoryChangesW, w.GetFinalPathNameByHandleW, w.CancelIoEx, w.CloseHandle = saved
            got = []
            while True:
                try:
                    got.append(q.get_nowait()[0])
                except queue.Empty:
                    break
            if got != [wev.DirDeletedEvent(root)]:
                raise Violation(f"windows emitter recursive={rec}: deletion of the watched directory delivered {got}, expected exactly one DirDeletedEvent of the root", "root-deleted")
            if em.should_keep_running():
                raise Violation(f"windows emitter recursive={rec}: the emitter did not stop after its watched directory was deleted", "root-deleted-not-stopped")
            info_cl.add("root-deleted")
        return nontrivial, sorted(info_cl) + [f"emitter:{emitter}", "recursive" if rec else "non-recursive"]
    finally:
        sc.close()


# ---------------------------------------------------------------------------- known findings (excluded by construction)

KNOWN_CASES = {
    "KF-C20-fsevents-nonrecursive-dir-children": {
        "kind": "translation", "emitter": "fsevents", "recursive": False, "init": [], "bursts": [[["mkdir", "b"]]], "coalesce": False, "cuts": [],
    },
    "KF-C20-fsevents-rename-chain": {
        "kind": "translation", "emitter": "fsevents", "recursive": True, "init": [["create", "a"]], "bursts": [[["rename", "a", "b"], ["rename", "b", "c"]]], "coalesce": True, "cuts": [],
    },
    "KF-C20-fsevents-name-reuse-in-batch": {
        "kind": "translation", "emitter": "fsevents", "recursive": True, "init": [["create", "a"]],
        "bursts": [[["move_out", "a", "o1"], ["create", "a"], ["move_out", "a", "o4"], ["move_in", "o1", "a"]]], "coalesce": False, "cuts": [],
    },
    "KF-C20-windows-name-reuse-in-batch": {
        "kind": "translation", "emitter": "windows", "recursive": True, "init": [["prebuild", "o1", [["a", "f"]], "d"]],
        "bursts": [[["create", "a"], ["rename", "a", "b"], ["move_in", "o1", "a"]]],
    },
}  # fmt: skip


def known_repros():
    return KNOWN_CASES


def excluded_by(case, known):
    """-> id of the known finding whose pattern the case contains (generators skip such cases and count them)."""
    m = fsops.model_after_init(case["init"])
    for burst in case["bursts"]:
        arrived = set()  # destinations of renames / move_ins of this burst (FSEvents chain)
        named = {}  # names used by earlier ops of this burst -> kinds they had (name re-use)
        for op in burst:
            k = op[0]
            if k in ("sleep",):
                continue
            subj_dir = k in ("mkdir", "makedirs", "rmdir", "rmtree") or (k in ("rename", "move_out") and m.kind(op[1]) == "d") or (k == "move_in" and m.out[op[1]][""][0] == "d")
            if "KF-C20-fsevents-nonrecursive-dir-children" in known and case["emitter"] == "fsevents" and not case["recursive"] and subj_dir:
                ends = [op[1]] if k not in ("move_in",) else []
                if k in ("rename", "move_in"):
                    ends.append(op[2])
                if any("/" not in p for p in ends):
                    return "KF-C20-fsevents-nonrecursive-dir-children"
            if "KF-C20-fsevents-rename-chain" in known and case["emitter"] == "fsevents":
                chain_ops = ("rename", "move_out")  # modify / delete of a rename destination are coalesced flags the emitter handles
                if k in chain_ops and op[1] in arrived:
                    return "KF-C20-fsevents-rename-chain"
                if k == "rename":
                    arrived.add(op[2])
                elif k == "move_in":
                    arrived.add(op[2])
            if ("KF-C20-windows-name-reuse-in-batch" in known and case["emitter"] == "windows") or ("KF-C20-fsevents-name-reuse-in-batch" in known and case["emitter"] == "fsevents"):
                creates = [op[1]] if k in ("create", "mkdir", "makedirs") else ([op[2]] if k in ("rename", "move_in") else [])
                new_kind = "f" if k == "create" else ("d" if k in ("mkdir", "makedirs") else (m.kind(op[1]) if k == "rename" else (m.out[op[1]][""][0] if k == "move_in" else None)))
                for p in creates:
                    if p in named:
                        if case["emitter"] == "fsevents":
                            return "KF-C20-fsevents-name-reuse-in-batch"
                        # Windows: the finding needs a directory on one side (flavour and synthetic sub-events come from
                        # os.path.isdir() at processing time); files re-using files' names are translated correctly
                        if new_kind == "d" or "d" in named[p]:
                            return "KF-C20-windows-name-reuse-in-batch"
                for x in ([op[2]] if k == "move_in" else [x for x in op[1:3] if isinstance(x, str)]):
                    kind_x = new_kind if x in creates else m.kind(x)
                    named.setdefault(x, set()).add(kind_x)
            fsops.apply_op(m, tuple(op))
    return None


@st.composite
def trans_cases(draw, tier):
    emitter = draw(st.sampled_from(["windows", "fsevents"]))
    opts = {"max_bursts": 4 if tier == "quick" else 7, "max_ops": 5, "makedirs": True, "sleeps": False, "weights": {"replace": 0, "read": 0}}
    if draw(st.integers(0, 2)) == 0:
        # names that are not in Unicode normal form C (decomposed e-acute, OHM SIGN) next to plain ones: the stream has
        # to carry the entry's exact name
        opts["names"] = ["a", "e\u0301", "\u2126"]
    opts["exclude"] = lambda op, m, pc: op[0] == "replace"
    h = draw(fsops.histories(opts))
    case = {"emitter": emitter, "recursive": draw(st.sampled_from([True, True, False])), "init": h["init"], "bursts": h["bursts"]}
    if emitter == "windows":
        case["root_deleted"] = draw(st.integers(0, 3)) == 0
    if emitter == "fsevents":
        case["neighbour"] = draw(st.booleans())
        case["bytes"] = draw(st.sampled_from([False, False, True]))
        case["coalesce"] = draw(st.booleans())
        case["cuts"] = draw(st.lists(st.integers(1, 4), max_size=4))
    return case


# ============================================================================ shards

NSH = 16


def shards(tier, seed):
    return [(k, tier, seed, i) for k in ("rt", "exh", "hyp") for i in range(NSH if k != "rt" else 4)]


def run_shard(spec):
    kind, tier, seed, i = spec
    st_ = Stats()
    if kind == "rt":
        count = [0]
        strat, chk = (fni_records(), check_fni) if i % 2 == 0 else (ino_records(), check_ino)

        def body(recs):
            count[0] += 1
            nt, cl = chk(recs)
            st_.case([kind, i % 2, [list(r) for r in recs]], nt, cl, sample={"records": [list(r) for r in recs[:3]], "n": len(recs)} if count[0] % 300 == 1 else None)

        res = runner.hyp_search(strat, body, seed=runner.derive_seed(seed, ID, "rt", i), max_examples=1500 if tier == "quick" else 20000)
        if res is not None:
            recs, v = res
            st_.fail({"kind": "fni" if i % 2 == 0 else "ino", "records": [list(r) for r in recs]}, v.message, v.signature)
        st_.extra["roundtrip_buffers"] = count[0]
        return st_
    known = runner.known_ids(ID)
    if kind == "exh":
        st_.exhaustive = True
        n = 0
        k = -1
        for init, bursts in c01.exhaustive_histories(2):
            if any(op[0] == "replace" for b in bursts for op in b):
                continue
            for emitter in ("windows", "fsevents"):
                for rec in (True, False):
                    k += 1
                    if k % NSH != i:
                        continue
                    case = {"emitter": emitter, "recursive": rec, "init": init, "bursts": bursts, "coalesce": emitter == "fsevents" and k % 3 == 0, "cuts": [], "root_deleted": emitter == "windows" and k % 5 == 0, "neighbour": emitter == "fsevents" and k % 2 == 0}
                    if excluded_by(case, known):
                        st_.excluded += 1
                        continue
                    n += 1
                    try:
                        nt, cl = run_translation(case)
                    except Violation as v:
                        st_.fail(dict(case, kind="translation"), v.message, v.signature)
                        st_.exhaustive = False
                        continue
                    st_.case(case, nt, cl, sample=case if n % 400 == 1 else None)
        st_.extra["exhaustive_histories"] = n
        return st_
    count = [0]

    def body(case):
        if excluded_by(case, known):
            st_.excluded += 1
            return
        count[0] += 1
        nt, cl = run_translation(case)
        st_.case(case, nt, cl, sample=case if count[0] % 100 == 1 else None)

    res = runner.hyp_search(trans_cases(tier), body, seed=runner.derive_seed(seed, ID, i), max_examples=300 if tier == "quick" else 5000)
    if res is not None:
        case, v = res
        st_.fail(dict(case, kind="translation"), v.message, v.signature)
    st_.extra["random_histories"] = count[0]
    return st_


def replay(case):
    try:
        if case["kind"] == "fni":
            check_fni([tuple(r) for r in case["records"]])
        elif case["kind"] == "ino":
            check_ino([tuple(r) for r in case["records"]])
        else:
            run_translation(case)
    except Violation as v:
        return [runner.Failure(case, v.message, v.signature)]
    return []
