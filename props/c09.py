"""C09 - a snapshot diff is a correct, minimal, inode-faithful description of the change.

Generated: pairs of virtual trees (vlib.vfs) in which every inode has exactly one path, snapshots
taken by the real DirectorySnapshot through its injectable stat/listdir.
Oracle: reference diff keyed by (ino, dev) + the statement's set equation + list discipline +
self-diff + argument-swap + ignore_device laws, for the constructor, the `-` operator and the ContextManager.
"""

from __future__ import annotations

import itertools

from hypothesis import strategies as st

from vlib import runner, vfs
from vlib.runner import Stats, Violation

ID = "C09"
LEVEL = "exploration"
DESIGN_REF = "DESIGN.md §4 C09"
RULE = (
    "pairs (old tree, new tree, recursive flag) of virtual trees with one path per inode; exhaustive part: every "
    "old tree with <= 3 entries over names {a,b}, depth <= 2, canonical identities x every new tree of that universe "
    "with every injective inode assignment from a pool of 4 and every mtime/size variation, each once with distinct "
    "inode numbers on one device and once with the root's inode number on distinct devices; random part: Hypothesis "
    "trees over {a,b,c}, depth <= 3, <= 12 entries, identities of the new tree drawn from old identities or fresh, one "
    "fresh identity in five re-using an inode number present on another device (tree spanning mount points). "
    "non-trivial = reference diff has >= 2 elementary changes, or a listed corner (swap of two names, inode reuse "
    "under the same name, move+modify, kind change in place, replace); distinct = digest of the normalized pair"
)
ASSUMPTIONS = [
    "snapshots are built by the real DirectorySnapshot over vlib.vfs.VFS (stat/listdir injection, the PollingObserverVFS interface)",
    "identity of an entry = (st_ino, st_dev), unique inside one tree (the statement's precondition, by construction); the ignore_device laws are judged only where an inode number names one identity",
    "when one identity has different kinds in the two snapshots either file/dir list is accepted for moved/modified",
]


# ----------------------------------------------------------------------------- oracle


def take(tree, recursive, root=vfs.ROOT):
    from watchdog.utils.dirsnapshot import DirectorySnapshot

    v = vfs.VFS(tree, root)
    return DirectorySnapshot(root, recursive=recursive, stat=v.stat, listdir=v.listdir)


def _lists(diff):
    return {
        "files_created": diff.files_created,
        "files_deleted": diff.files_deleted,
        "files_modified": diff.files_modified,
        "files_moved": diff.files_moved,
        "dirs_created": diff.dirs_created,
        "dirs_deleted": diff.dirs_deleted,
        "dirs_modified": diff.dirs_modified,
        "dirs_moved": diff.dirs_moved,
    }


def check_pair(t1, t2, recursive):
    """Raises Violation if DirectorySnapshotDiff disagrees with the statement on (t1, t2)."""
    from watchdog.utils.dirsnapshot import DirectorySnapshotDiff

    root = vfs.ROOT
    s1, s2 = take(t1, recursive), take(t2, recursive)
    e1, e2 = vfs.visible(t1, recursive), vfs.visible(t2, recursive)
    F = lambda r: vfs.full(r, root)  # noqa: E731
    # snapshot content (C10 re-checks this under faults; here it is the precondition of the rest)
    for snap, ent in ((s1, e1), (s2, e2)):
        msg = vfs.snapshot_content_error(snap, ent, root)
        if msg:
            raise Violation(msg, "snapshot-content")

    d = DirectorySnapshotDiff(s1, s2)
    L = _lists(d)
    # (c) list discipline: no duplicates, nothing in two lists of the same class
    for name, lst in L.items():
        if len(lst) != len(set(lst)):
            raise Violation(f"duplicates in {name}: {lst}", "duplicate-in-list")
    for cls in ("created", "deleted", "modified", "moved"):
        both = set(L[f"files_{cls}"]) & set(L[f"dirs_{cls}"])
        if both:
            raise Violation(f"{both} in both files_{cls} and dirs_{cls}", "in-both-kind-lists")

    created = set(L["files_created"]) | set(L["dirs_created"])
    deleted = set(L["files_deleted"]) | set(L["dirs_deleted"])
    modified = set(L["files_modified"]) | set(L["dirs_modified"])
    moved = set(L["files_moved"]) | set(L["dirs_moved"])

    # (a) set equation
    lhs = (set(s1.paths) - deleted - {a for a, _ in moved}) | created | {b for _, b in moved}
    if lhs != set(s2.paths):
        raise Violation(
            f"set equation fails: old-deleted-move sources+created+move dests = {sorted(lhs)} but new = {sorted(s2.paths)}",
            "set-equation",
        )
    # (b) reference diff
    rc, rd, rm, rmod = vfs.reference_diff(e1, e2)
    exp = {
        "created": {F(r) for r in rc},
        "deleted": {F(r) for r in rd},
        "moved": {(F(a), F(b)) for a, b in rm},
        "modified": {F(r) for r in rmod},
    }
    got = {"created": created, "deleted": deleted, "moved": moved, "modified": modified}
    for k in exp:
        if exp[k] != got[k]:
            raise Violation(f"{k}: library {sorted(got[k])} reference {sorted(exp[k])}", f"diff-{k}")
    # (c) kinds
    k1 = {F(r): v[0] for r, v in e1.items()}
    k2 = {F(r): v[0] for r, v in e2.items()}
    for p in L["files_created"]:
        if k2[p] != "f":
            raise Violation(f"{p} is a directory but listed in files_created", "kind-created")
    for p in L["dirs_created"]:
        if k2[p] != "d":
            raise Violation(f"{p} is a file but listed in dirs_created", "kind-created")
    for p in L["files_deleted"]:
        if k1[p] != "f":
            raise Violation(f"{p} was a directory but listed in files_deleted", "kind-deleted")
    for p in L["dirs_deleted"]:
        if k1[p] != "d":
            raise Violation(f"{p} was a file but listed in dirs_deleted", "kind-deleted")
    oid = {(v[1], v[2]): r for r, v in e1.items()}
    nid = {(v[1], v[2]): r for r, v in e2.items()}
    for a, b in L["files_moved"]:
        if "f" not in (k1[a], k2[b]):
            raise Violation(f"directory move {a}->{b} listed in files_moved", "kind-moved")
    for a, b in L["dirs_moved"]:
        if "d" not in (k1[a], k2[b]):
            raise Violation(f"file move {a}->{b} listed in dirs_moved", "kind-moved")
    for p in L["files_modified"]:
        r = vfs.rel_of(p, root)
        ident = (e1[r][1], e1[r][2])
        if "f" not in (k1[p], k2[F(nid[ident])]):
            raise Violation(f"directory {p} listed in files_modified", "kind-modified")
    for p in L["dirs_modified"]:
        r = vfs.rel_of(p, root)
        ident = (e1[r][1], e1[r][2])
        if "d" not in (k1[p], k2[F(nid[ident])]):
            raise Violation(f"file {p} listed in dirs_modified", "kind-modified")

    # (d) self diff
    for s in (s1, s2):
        ds = DirectorySnapshotDiff(s, s)
        if any(_lists(ds).values()):
            raise Violation(f"diff of a snapshot against itself is not empty: {_lists(ds)}", "self-diff")
    # fresh snapshot of the same tree is also no change
    ds = DirectorySnapshotDiff(s1, take(t1, recursive))
    if any(_lists(ds).values()):
        raise Violation(f"diff of two snapshots of the same tree is not empty: {_lists(ds)}", "self-diff")
    # the subtraction operator is the same diff; against the empty snapshot everything is "created"
    from watchdog.utils.dirsnapshot import EmptyDirectorySnapshot

    dsub = s2 - s1
    if not isinstance(dsub, DirectorySnapshotDiff):
        raise Violation(f"snapshot2 - snapshot1 gives {dsub!r}, not a DirectorySnapshotDiff", "sub-operator")
    if {k: sorted(map(repr, v)) for k, v in _lists(dsub).items()} != {k: sorted(map(repr, v)) for k, v in L.items()}:
        raise Violation(f"snapshot2 - snapshot1 differs from DirectorySnapshotDiff(snapshot1, snapshot2): {_lists(dsub)} vs {L}", "sub-operator")
    de = DirectorySnapshotDiff(EmptyDirectorySnapshot(), s2)
    LE = _lists(de)
    if set(LE["files_created"]) | set(LE["dirs_created"]) != set(s2.paths) or any(LE[k] for k in LE if not k.endswith("created")):
        raise Violation(f"diff against the empty snapshot is not 'everything created': {LE} for paths {sorted(s2.paths)}", "empty-snapshot")
    if any(k2[p] != "d" for p in LE["dirs_created"]) or any(k2[p] != "f" for p in LE["files_created"]):
        raise Violation(f"diff against the empty snapshot puts an entry into the wrong file/dir list: {LE}", "empty-snapshot")
    # the context manager is a third way to the same diff: snapshot on entry, snapshot on exit
    v = vfs.VFS(t1, root)
    cm = DirectorySnapshotDiff.ContextManager(root, recursive=recursive, stat=v.stat, listdir=v.listdir)
    with cm:
        v.tree = dict(t2)
    if {k: sorted(map(repr, x)) for k, x in _lists(cm.diff).items()} != {k: sorted(map(repr, x)) for k, x in L.items()}:
        raise Violation(f"DirectorySnapshotDiff.ContextManager gives {_lists(cm.diff)}, the constructor {L}", "context-manager")
    if len({x[1] for x in e1.values()}) == len(e1):
        v = vfs.VFS(t1, root)
        cm = DirectorySnapshotDiff.ContextManager(root, recursive=recursive, stat=v.stat, listdir=v.listdir, ignore_device=True)
        with cm:
            v.tree = {r: (x[0], x[1], x[2] + 10, x[3], x[4]) for r, x in t1.items()}
        if any(_lists(cm.diff).values()):
            raise Violation(f"ContextManager(ignore_device=True): a pure change of device id is reported as {_lists(cm.diff)}", "ignore-device")
    # (e) argument swap
    r_ = DirectorySnapshotDiff(s2, s1)
    R = _lists(r_)
    rcreated = set(R["files_created"]) | set(R["dirs_created"])
    rdeleted = set(R["files_deleted"]) | set(R["dirs_deleted"])
    rmoved = set(R["files_moved"]) | set(R["dirs_moved"])
    if rcreated != deleted or rdeleted != created or rmoved != {(b, a) for a, b in moved}:
        raise Violation(
            f"swap law: forward c={sorted(created)} d={sorted(deleted)} m={sorted(moved)}; "
            f"backward c={sorted(rcreated)} d={sorted(rdeleted)} m={sorted(rmoved)}",
            "swap-law",
        )
    # (f) ignore_device: a pure change of device id is no change
    if not rm:  # no identity changes path
        t2x = {r: (v[0], v[1], v[2] + 10, v[3], v[4]) for r, v in t2.items()}
        s2x = take(t2x, recursive)
        di = DirectorySnapshotDiff(s1, s2x, ignore_device=True)
        # compare with the diff of the pair in which devices were never touched, for the entries whose
        # identity does not depend on the device, i.e. pairs where t1/t2 agree on dev wherever ino agrees
        # ... and only where an inode NUMBER names one identity over both trees (with ignore_device the number alone is
        # the identity, so a tree spanning devices with equal numbers is outside the statement's precondition)
        ids = {(v[1], v[2]) for v in e1.values()} | {(v[1], v[2]) for v in e2.values()}
        if len({i for i, _ in ids}) == len(ids):
            if {k: set(v) for k, v in _lists(di).items()} != {k: set(v) for k, v in L.items()}:
                raise Violation(
                    f"ignore_device: remapping every device id of the new snapshot changed the diff: {_lists(di)} vs {L}",
                    "ignore-device",
                )
    t1x = {r: (v[0], v[1], v[2] + 10, v[3], v[4]) for r, v in t1.items()}
    dz = DirectorySnapshotDiff(s1, take(t1x, recursive), ignore_device=True)
    if len({v[1] for v in e1.values()}) == len(e1) and any(_lists(dz).values()):
        raise Violation(f"ignore_device: pure device change reported as {_lists(dz)}", "ignore-device")
    return (rc, rd, rm, rmod)


def classify(t1, t2, recursive, ref):
    rc, rd, rm, rmod = ref
    e1, e2 = vfs.visible(t1, recursive), vfs.visible(t2, recursive)
    n = len(rc) + len(rd) + len(rm) + len(rmod)
    classes = [f"changes={min(n, 4)}{'+' if n >= 4 else ''}", "recursive" if recursive else "non-recursive"]
    corner = False
    mv = dict(rm)
    if any(mv.get(b) == a for a, b in rm):
        classes.append("corner:swap")
        corner = True
    if any(a in rmod for a, _ in rm):
        classes.append("corner:move+modify")
        corner = True
    for r in e1:
        if r in e2:
            if (e1[r][1], e1[r][2]) == (e2[r][1], e2[r][2]) and e1[r][0] != e2[r][0]:
                classes.append("corner:kind-change-same-inode")
                corner = True
            elif (e1[r][1], e1[r][2]) != (e2[r][1], e2[r][2]):
                classes.append("corner:replace-or-reuse")
                corner = True
    for e in (e1, e2):
        inos = {}
        for r, v in e.items():
            inos.setdefault(v[1], []).append(r)
        multi = [rs for rs in inos.values() if len(rs) > 1]
        if multi:
            classes.append("inode-number-on-two-devices")
            if any(a != b and (a == "" or b.startswith(a + "/")) for rs in multi for a in rs for b in rs):
                classes.append("inode-number-of-an-ancestor")
    if any(b in e1 for _, b in rm):
        classes.append("corner:move-onto-existing-name")
        corner = True
    return n >= 2 or corner, classes


def run_case(st_, t1, t2, recursive, sample=False):
    ref = check_pair(t1, t2, recursive)
    nt, classes = classify(t1, t2, recursive, ref)
    case = {"t1": vfs.tree_to_case(t1), "t2": vfs.tree_to_case(t2), "recursive": recursive}
    st_.case(case, nt, classes, sample=case if sample else None)


# ----------------------------------------------------------------------------- generators


def shapes(names, depth, max_entries):
    """All tree shapes {rel: kind} (without the root) with <= max_entries entries."""
    out = []

    def rec(todo, cur):
        # todo: list of directories whose children still have to be decided
        if not todo:
            out.append(dict(cur))
            return
        d, rest = todo[0], todo[1:]
        dd = d.count("/") + 1 if d else 0
        for kinds in itertools.product("-fd", repeat=len(names)):
            new = {}
            for n, k in zip(names, kinds):
                if k != "-":
                    new[(d + "/" + n) if d else n] = k
            if len(cur) + len(new) > max_entries:
                continue
            cur.update(new)
            nxt = rest + [p for p, k in new.items() if k == "d" and dd + 1 < depth]
            rec(nxt, cur)
            for p in new:
                del cur[p]

    rec([""], {})
    return out


def exhaustive_pairs(shard, nshards, names, depth, max_entries, pool):
    shp = shapes(names, depth, max_entries)
    for i, sh1 in enumerate(shp):
        if i % nshards != shard:
            continue
        p1 = sorted(sh1)
        # identity k of the pool is (ino k, dev 1), or - the same trees spanning mount points - (the root's ino, dev 1+k)
        # (inode numbers start at 0: a number some file systems do report, and a falsy one - seeded change C09-9)
        for ident in ((lambda k: (k - 1, 1)), (lambda k: (100, 1 + k))):
            t1 = {"": ("d", 100, 1, 0, 0)}
            for j, p in enumerate(p1):
                t1[p] = (sh1[p], *ident(j + 1), 0, 0)
            for sh2 in shp:
                p2 = sorted(sh2)
                for inos in itertools.permutations(pool, len(p2)):
                    for bits in itertools.product(((0, 0), (1, 0), (0, 1)), repeat=len(p2)):
                        for rootbit in (0, 1):
                            t2 = {"": ("d", 100, 1, rootbit, 0)}
                            for p, ino, (m, s) in zip(p2, inos, bits):
                                t2[p] = (sh2[p], *ident(ino), m, s)
                            yield t1, t2


from vlib.treegen import pairs  # noqa: E402


# ----------------------------------------------------------------------------- shards

NSH = 16


def shards(tier, seed):
    out = []
    for i in range(NSH):
        out.append(("exh", tier, seed, i))
        out.append(("hyp", tier, seed, i))
    return out


def run_shard(spec):
    kind, tier, seed, i = spec
    st_ = Stats()
    if kind == "exh":
        maxe = 2 if tier == "quick" else 3
        pool = (1, 2, 3) if tier == "quick" else (1, 2, 3, 4)
        n = 0
        try:
            for t1, t2 in exhaustive_pairs(i, NSH, ("a", "b"), 2, maxe, pool):
                for rec in (True, False):
                    n += 1
                    try:
                        run_case(st_, t1, t2, rec, sample=(n % 5000 == 1))
                    except Violation as v:
                        st_.fail(
                            {"t1": vfs.tree_to_case(t1), "t2": vfs.tree_to_case(t2), "recursive": rec},
                            v.message,
                            v.signature,
                        )
                        raise StopIteration from None
        except StopIteration:
            st_.exhaustive = False
            return st_
        st_.exhaustive = True
        st_.extra["exhaustive_pairs"] = n
        return st_
    n_examples = 1500 if tier == "quick" else 20000
    count = [0]

    def body(case):
        t1, t2, rec = case
        count[0] += 1
        run_case(st_, t1, t2, rec, sample=(count[0] % 400 == 1))

    res = runner.hyp_search(pairs(), body, seed=runner.derive_seed(seed, ID, i), max_examples=n_examples)
    if res is not None:
        (t1, t2, rec), v = res
        st_.fail({"t1": vfs.tree_to_case(t1), "t2": vfs.tree_to_case(t2), "recursive": rec}, v.message, v.signature)
    st_.extra["random_pairs"] = count[0]
    return st_


def replay(case):
    t1, t2 = vfs.case_to_tree(case["t1"]), vfs.case_to_tree(case["t2"])
    try:
        check_pair(t1, t2, case["recursive"])
    except Violation as v:
        return [runner.Failure(case, v.message, v.signature)]
    return []
