"""C10 (concurrent part): the real PollingEmitter thread over the virtual file system and the virtual clock, under
generated schedules with line-level scheduling points in polling.py and dirsnapshot.py, while another thread changes
the tree once (each walk sees one consistent state) and a third one stops the emitter - also in the middle of a walk.

Oracle: what the emitter put into its event queue is explained by the one change: nothing but the events of
diff(tree before, tree after), each at most once, all of them if at least one full poll lay between the change and
stop(), and nothing at all if the tree never changed ("nothing when nothing changed", whenever stop() arrives)."""

from __future__ import annotations

import functools

from hypothesis import strategies as st

from vlib import runner, vfs
from vlib.dsched import core, explore, harness, loader
from vlib.runner import Stats, Violation

LINES = ("polling", "dirsnapshot")
T = 0.5  # polling interval

TREE0 = {"": ("d", 1, 1, 0, 0), "a": ("f", 2, 1, 0, 0), "d": ("d", 3, 1, 0, 0), "d/x": ("f", 4, 1, 0, 0)}
CHANGES = {
    "none": {},
    "create": {"b": ("f", 9, 1, 0, 0), "": ("d", 1, 1, 1, 0)},
    "delete": {"a": None, "": ("d", 1, 1, 1, 0)},
    "modify": {"d/x": ("f", 4, 1, 5, 7)},
    "move": {"a": None, "d/a": ("f", 2, 1, 0, 0), "": ("d", 1, 1, 1, 0), "d": ("d", 3, 1, 1, 0)},
}


def apply_change(tree, ch):
    t = dict(tree)
    for k, v in ch.items():
        if v is None:
            t.pop(k, None)
        else:
            t[k] = v
    return t


class WalkVFS(vfs.VFS):
    """Every walk sees one consistent state: the tree as it was when the walk began (its first call is the stat of the
    root).  A change that lands during a walk shows in the next one - a rename seen half-way would put one inode under
    two paths, which is outside the statement's precondition (C09: every inode has one path)."""

    def __init__(self, tree, root):
        super().__init__(tree, root)
        self.live = dict(tree)

    def stat(self, path):
        if path == self.root:
            self.tree = dict(self.live)
        return super().stat(path)


def make_main(prog):
    W = loader.load()
    th, tm = core.fake_threading, core.fake_time

    def main(s):
        v = WalkVFS(TREE0, root="/r")
        q = W.api.EventQueue()
        em = W.polling.PollingEmitter(q, W.api.ObservedWatch("/r", recursive=prog["recursive"]), timeout=T, stat=v.stat, listdir=v.listdir)
        em.start()

        def mutator():
            tm.sleep(prog["t_change"])
            s.record("change", s.now)
            v.live = apply_change(v.live, CHANGES[prog["change"]])

        def stopper():
            tm.sleep(prog["t_stop"])
            s.record("stop_call", s.now)
            em.stop()
            em.join()
            s.record("stop_ret", s.now)

        ts = [th.Thread(target=stopper, name="stopper")]
        if prog["change"] != "none":
            ts.append(th.Thread(target=mutator, name="mutator"))
        for t in ts:
            t.start()
        for t in ts:
            t.join()
        got = []
        Empty = core.fake_queue.Empty
        while True:
            try:
                got.append(q.get_nowait()[0])
            except Empty:
                break
        s.record("events", [(type(e).__name__, e.src_path, e.dest_path) for e in got])
        return None

    return main


def expected(prog):
    """Events of the one change, as (class name, src, dest) triples."""
    e1 = vfs.visible(TREE0, prog["recursive"])
    e2 = vfs.visible(apply_change(TREE0, CHANGES[prog["change"]]), prog["recursive"])
    c, d, m, mod = vfs.reference_diff(e1, e2)
    F = lambda r: vfs.full(r, "/r")  # noqa: E731
    out = []
    for r in c:
        out.append((("Dir" if e2[r][0] == "d" else "File") + "CreatedEvent", F(r), ""))
    for r in d:
        out.append((("Dir" if e1[r][0] == "d" else "File") + "DeletedEvent", F(r), ""))
    for a, b in m:
        out.append((("Dir" if e1[a][0] == "d" else "File") + "MovedEvent", F(a), F(b)))
    for r in mod:
        out.append((("Dir" if e1[r][0] == "d" else "File") + "ModifiedEvent", F(r), ""))
    return out


def check(prog, r, s):
    v = harness.basic_verdict(r)
    if v:
        raise Violation(f"{v[1]} (program {prog})", v[0])
    got = t_change = t_stop = None
    for seq, tid, tag, p in s.log:
        if tag == "events":
            got = [tuple(x) for x in p]
        elif tag == "change":
            t_change = p
        elif tag == "stop_call":
            t_stop = p
    if got is None:
        raise Violation(f"the program did not finish (program {prog})", "unfinished")
    exp = expected(prog)
    extra = [g for g in got if g not in exp]
    if extra:
        raise Violation(f"the emitter queued {extra} although the only change was {prog['change']!r} (expected at most {exp}; all queued: {got}; program {prog})", "conc-extra-event")
    if len(set(got)) != len(got):
        raise Violation(f"the emitter queued an event twice: {got} (program {prog})", "conc-duplicate-event")
    cl = ["conc", "change:" + prog["change"], "recursive" if prog["recursive"] else "non-recursive"]
    if t_change is not None and t_stop is not None and t_stop - t_change > 2 * T + 0.01:
        # at least one complete poll started after the change and finished before stop() was called
        missing = [e for e in exp if e not in got]
        if missing:
            raise Violation(f"change {prog['change']!r} at {t_change}, stop() at {t_stop}: {missing} never queued (queued: {got}; program {prog})", "conc-missing-event")
        cl.append("full-poll-after-change")
    if r.preemptions:
        cl.append(f"preemptions={min(r.preemptions, 3)}")
    return bool(r.preemptions), cl


def P(change, t_change, t_stop, recursive=True):
    return {"change": change, "t_change": t_change, "t_stop": t_stop, "recursive": recursive}


FIXED = [
    P("none", 0.0, T),  # stop() as the second poll begins: nothing changed, nothing may be queued
    P("none", 0.0, 0.0),
    P("create", T, T),  # change and stop() at the instant of a poll
    P("move", 0.2, 2.0),
    P("delete", T, 3 * T, recursive=False),
]


@st.composite
def programs(draw):
    return P(
        draw(st.sampled_from(sorted(CHANGES))),
        draw(st.sampled_from([0.0, 0.2, T, T + 0.2, 2 * T])),
        draw(st.sampled_from([0.0, T, 2 * T, 2 * T + 0.2, 4 * T])),
        draw(st.booleans()),
    )


NSH = 16
MAXRUNS = {"quick": 600, "thorough": 20000}


def shards(tier, seed):
    return [("conc", tier, seed, i, m) for i in range(NSH) for m in ("dfs", "rand")]


def run_shard(spec):
    _, tier, seed, i, mode = spec
    harness.ensure_lines(LINES)
    st_ = Stats()
    if mode == "dfs":
        bound = 1 if tier == "quick" else 2
        total = 0
        for pi, prog in enumerate(FIXED):
            main = make_main(prog)

            def rw(prefix, prog=prog, main=main, pi=pi):
                r, s = harness.execute(main, prefix=prefix)
                chosen = [d[2] for d in r.decisions]
                try:
                    nt, cl = check(prog, r, s)
                except Violation as v:
                    v.prefix = chosen
                    raise
                st_.case(["conc-dfs", pi, chosen], nt, cl + [f"conc-program{pi}"], sample={"kind": "conc-prefix", "program": prog, "prefix": chosen} if st_.evaluations % 500 == 0 else None)
                return r.decisions

            try:
                runs, done = explore.dfs(rw, bound, shard=(i, NSH), max_runs=MAXRUNS[tier])
            except Violation as v:
                st_.fail({"kind": "conc-prefix", "program": prog, "prefix": getattr(v, "prefix", None)}, v.message, v.signature)
                continue
            total += runs
        st_.extra["conc_dfs_schedules"] = total
        return st_
    count = [0]

    def body(case):
        prog, sched = case
        count[0] += 1
        r, s = harness.execute_random(make_main(prog), sched)
        nt, cl = check(prog, r, s)
        st_.case(["conc-rand", prog, [d[2] for d in r.decisions]], nt, cl, sample={"kind": "conc-random", "program": prog, "schedule": sched} if count[0] % 200 == 1 else None)

    res = runner.hyp_search(st.tuples(programs(), harness.SCHEDULES), body, seed=runner.derive_seed(seed, "C10c", i), max_examples=150 if tier == "quick" else 3000)
    if res is not None:
        (prog, sched), v = res
        st_.fail({"kind": "conc-random", "program": prog, "schedule": sched}, v.message, v.signature)
    st_.extra["conc_random_executions"] = count[0]
    return st_


def replay(case):
    harness.ensure_lines(LINES)
    prog = case["program"]
    try:
        if case["kind"] == "conc-prefix":
            r, s = harness.execute(make_main(prog), prefix=case["prefix"] or [])
        else:
            fr, free = case["schedule"]
            r, s = harness.execute_random(make_main(prog), ([tuple(x) for x in fr], free))
        check(prog, r, s)
    except Violation as v:
        return [runner.Failure(case, v.message, v.signature)]
    return []
