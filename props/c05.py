"""C05 - after unschedule / remove_handler_for_watch / unschedule_all / stop returns, the removed handler is never
called again, and the emitter of an unscheduled watch has stopped producing events.

Same engine and program family as C04 with removal-heavy scripts (external threads and re-entrant calls from
handlers, at every position of the event stream through the generated schedule)."""

from __future__ import annotations

from props import c04, obsprog
from vlib.dsched import harness
from vlib.runner import Violation

ID = "C05"
LEVEL = "exploration"
DESIGN_REF = "DESIGN.md §3.2, §4 C05"
RULE = (
    "cases = C04's program family with removal-heavy call lists (unschedule / remove_handler_for_watch / unschedule_all / "
    "stop from API threads and re-entrantly from handlers, stop() again at the end) x schedules (DFS with <= k preemptions over 10 "
    "fixed programs, random schedules over Hypothesis programs), one program in three with an emitter that spends longer "
    "than its timeout inside one queue_events() pass; a marker event queued through every live emitter at "
    "quiescence is judged like any other event.  non-trivial = some removal returned while >= 1 event of "
    "the affected watch was still queued or yet to be queued by its emitter; distinct = digest of (program, schedule)"
)
ASSUMPTIONS = c04.ASSUMPTIONS[:1] + [
    "a callback that BEGINS after a removal returned is the violation; a callback in progress when the removal is invoked is not (the calls serialize on the observer lock)",
    "emitter clause: every emitter instance of the watch created before unschedule()/unschedule_all()/stop() was invoked has finished its thread and queues nothing after the call returned",
]


def check(prog, r, s):
    v = harness.basic_verdict(r)
    if v:
        raise Violation(f"{v[1]} (program {prog})", v[0])
    h = obsprog.History(s.log, prog)
    nontrivial = False
    cl = set()
    for c in h.calls.values():
        f = c["form"]
        if c["out"] != "ok" or f[0] not in ("unschedule", "remove", "unschedule_all", "stop"):
            continue
        t_inv, t_ret = c["inv"], c["ret"]
        affected = []
        for hid in range(h.nh):
            for path in h.paths:
                if (f[0] == "unschedule" and h.paths[f[1]] == path) or f[0] in ("unschedule_all", "stop") or (f[0] == "remove" and f[1] == hid and h.paths[f[2]] == path):
                    affected.append((hid, path))
        for hid, path in affected:
            for seq, hh, p, eid in h.cbs + h.marker_cbs:  # the marker event queued at quiescence is an event like any other
                if hh == hid and p == path and seq > t_ret and not h.callback_allowed(hid, path, seq):
                    raise Violation(
                        f"handler {hid} was called for {path}/e{eid} at t={seq}, after {list(f)} (by {c['who']}) had returned at t={t_ret} and without a later registration "
                        f"(program {prog})",
                        "callback-after-removal:" + f[0],
                    )
        if f[0] in ("unschedule", "unschedule_all", "stop"):
            paths = [h.paths[f[1]]] if f[0] == "unschedule" else h.paths
            for seq_new, path, inst in h.emitter_new:
                if path in paths and seq_new < t_inv:
                    end = h.emitter_end.get(inst)
                    started = any(q[3] == inst for q in h.queued) or end is not None
                    if started and (end is None or end > t_ret):
                        raise Violation(f"emitter #{inst} of {path} was still running when {list(f)} returned at t={t_ret} (ended at {end}; program {prog})", "emitter-alive-after-unschedule")
                    late = [q for q in h.queued if q[3] == inst and q[0] > t_ret]
                    if late:
                        raise Violation(f"emitter #{inst} of {path} queued {late[0]} after {list(f)} had returned at t={t_ret} (program {prog})", "emitter-queues-after-unschedule")
        # non-trivial: something of the affected watches was still in flight
        for hid, path in affected:
            if any(q[1] == path and any(cb[0] > t_inv for cb in h.cbs if cb[2] == path and cb[3] == q[2]) for q in h.queued) or any(q[1] == path and q[0] > t_inv for q in h.queued):
                nontrivial = True
        cl.add("removal:" + f[0] + (":reentrant" if c["who"].startswith("handler") else ""))
    if r.preemptions:
        cl.add(f"preemptions={min(r.preemptions, 3)}")
    if nontrivial:
        cl.add("removal-with-events-in-flight")
    return nontrivial, sorted(cl)


P = c04.P
FIXED = [
    P(["/p0"], {"/p0": [0, 1, 2, 3]}, [{}], [["schedule", 0, 0]], [[["unschedule", 0]]]),
    P(["/p0"], {"/p0": [0, 1, 2, 3]}, [{}, {}], [["schedule", 0, 0], ["schedule", 1, 0]], [[["remove", 0, 0]]]),
    P(["/p0", "/p1"], {"/p0": [0, 1, 2], "/p1": [0, 1]}, [{}], [["schedule", 0, 0], ["schedule", 0, 1]], [[["unschedule_all"]]]),
    P(["/p0"], {"/p0": [0, 1, 2]}, [{"reentrant": {"at": 1, "call": ["unschedule", 0]}}, {}], [["schedule", 0, 0], ["schedule", 1, 0]], []),
    P(["/p0"], {"/p0": [0, 1, 2]}, [{"reentrant": {"at": 2, "call": ["remove", 1, 0]}}, {}], [["schedule", 0, 0], ["schedule", 1, 0]], [[["remove", 0, 0], ["add", 0, 0]]]),
    P(["/p0", "/p1"], {"/p0": [0, 1], "/p1": [0, 1]}, [{"reentrant": {"at": 1, "call": ["unschedule_all"]}}, {}], [["schedule", 0, 0], ["schedule", 1, 1]], [[["schedule", 1, 0]]]),
]
def PS(prog, slow):
    return dict(prog, slow=slow)


FIXED += [
    # stop() from two threads at once, and from a callback while another thread stops
    P(["/p0"], {"/p0": [0, 1, 2, 3]}, [{}, {}], [["schedule", 0, 0], ["schedule", 1, 0]], [[["stop"]], [["stop"]]]),
    P(["/p0"], {"/p0": [0, 1, 2]}, [{"reentrant": {"at": 1, "call": ["stop"]}}, {}], [["schedule", 0, 0], ["schedule", 1, 0]], [[["stop"]]]),
    # the removal arrives while the emitter is inside one long queue_events() pass (longer than its timeout)
    PS(P(["/p0"], {"/p0": [0, 1]}, [{}], [["schedule", 0, 0]], [[["unschedule_all"]]]), {"/p0": {"1": 2.5}}),
    PS(P(["/p0", "/p1"], {"/p0": [0, 1], "/p1": [0]}, [{}], [["schedule", 0, 0], ["schedule", 0, 1]], [[["unschedule", 0]]]), {"/p0": {"0": 2.5}}),
]
PROGRAMS = obsprog.programs(removal_heavy=True, slow_passes=True)
MAXRUNS = c04.MAXRUNS
NSH = c04.NSH
shards = c04.shards


def run_shard(spec):
    import sys

    return c04.run_shard(spec, mod=sys.modules[__name__])


def replay(case):
    import sys

    return c04.replay(case, mod=sys.modules[__name__])
