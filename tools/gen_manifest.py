#!/usr/bin/env python3
"""Regenerates /verif/MANIFEST.json from tools/manifest_table.py (keeps it schema-valid at all times)."""
import json, os, sys
HERE = os.path.dirname(os.path.dirname(os.path.abspath(__file__)))
sys.path.insert(0, HERE)
from tools.manifest_table import CHECKS, NOT_APPLICABLE, ENGINES  # noqa: E402

checks = []
for pid, c in sorted(CHECKS.items()):
    checks.append({
        "property_id": pid,
        "quick_cmd": f"./check {pid} --tier quick",
        "thorough_cmd": f"./check {pid} --tier thorough",
        "evidence_file": f"/verif/evidence/{pid}.json",
        "replay_cmd_template": f"./check {pid} --replay {{path}}",
        "engine": c["engine"],
        "level_claimed": {"category": c.get("category", "exploration"), "text": c["text"], "design_ref": c["design_ref"]},
        "level_note": c["note"],
        "technique": c["technique"],
    })
m = {
    "version": 1,
    "setup_cmd": "./setup.sh",
    "hooks": {
        "guard": "WATCHDOG_VERIF",
        "enable": "no source hooks: checks import /repo/src from the working tree in a fresh interpreter and patch module attributes in the harness process only (WATCHDOG_VERIF=1 is exported by ./check but read by nothing in /repo)",
        "baseline_off_cmd": "cd /repo && env -u WATCHDOG_VERIF /venv/bin/python -m pytest -ra -q -p no:cacheprovider --timeout=900 --continue-on-collection-errors",
        "source_commits": [],
        "add_only": True,
    },
    "engines": ENGINES,
    "checks": checks,
    "notes": "All checks are property-based tests / generated-input searches against explicit oracles (Hypothesis + bounded exhaustive enumeration + generated schedules). See DESIGN.md.",
    "not_applicable": NOT_APPLICABLE,
}
json.dump(m, open(os.path.join(HERE, "MANIFEST.json"), "w"), indent=1)
print("wrote MANIFEST.json with", len(checks), "checks;", len(NOT_APPLICABLE), "not claimed")
