#!/bin/bash
# tools/at_commit.sh <commit> <PROP> [tier]: run a check against /repo as of <commit> (scratch worktree, removed afterwards)
set -u
c="$1"; p="$2"; t="${3:-quick}"
d=$(mktemp -d /tmp/vwt_XXXXXX)
git -C /repo worktree add --detach -q "$d/wt" "$c" || exit 3
VERIF_REPO_SRC="$d/wt/src" VERIF_REPLAY_DIR="$d/replays" /verif/check "$p" --tier "$t" --no-evidence 2>&1 | grep -E '^(FAIL|VIOLATION|OK|NOT-OK|HARNESS|INCONCL|KNOWN)' | cut -c1-600 | head -${LINES_MAX:-12}
git -C /repo worktree remove --force "$d/wt"; rm -rf "$d"
