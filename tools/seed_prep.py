#!/usr/bin/env python3
"""tools/seed_prep.py <round dir, e.g. /tmp/seed5> [Cxx ...] - prepare a round of independently written breaking changes:
one scratch worktree of /repo HEAD per property, a file with the property's text and a prompt for a fresh sub-agent
(which gets nothing from /verif; the prompt lists the code sites and ideas earlier rounds used, from seeded/*/).
The worktrees must be removed afterwards: git -C /repo worktree remove --force <dir>/<Cxx>; git -C /repo worktree prune."""
import glob, json, os, re, subprocess, sys
FOCUS = ("Especially welcome: a change whose effect shows only after a LONG or unusual history (many steps, a "
         "repeated cycle, state left behind by an earlier failure), only at a boundary value (empty, exactly-equal, maximum size, zero delay), only under a "
         "combination of two unusual configuration values, only when two API objects interact (two watches, two handlers, two observers, observer re-use after "
         "stop), or one that changes WHICH exception/outcome a documented error path produces")
if "--focus" in sys.argv:
    i = sys.argv.index("--focus"); FOCUS = sys.argv[i + 1]; del sys.argv[i:i + 2]
rd = sys.argv[1].rstrip("/")
props = {}
for l in open("/verif/properties.jsonl"):
    d = json.loads(l); props[d["id"]] = d
ids = sys.argv[2:] or sorted(props)
os.makedirs(rd, exist_ok=True)
BASE = open(os.path.join(os.path.dirname(os.path.abspath(__file__)), "seed_prompt.txt")).read()
for pid in ids:
    d = props[pid]
    wt = f"{rd}/{pid}"
    if not os.path.isdir(wt):
        subprocess.run(["git", "-C", "/repo", "worktree", "add", "--detach", "-q", wt, "HEAD"], check=True)
    anchors = ", ".join(d.get("anchors", {}).get("files", []))
    quant = d["quantifier"]["text"] if isinstance(d["quantifier"], dict) else d["quantifier"]
    open(f"{rd}/{pid}.property.txt", "w").write(f"{pid}: {d['title']}\n\nSTATEMENT: {d['statement']}\n\nQUANTIFIED OVER: {quant}\n\nCODE INVOLVED: {anchors}\n")
    used = []
    for sd in sorted(glob.glob(f"/verif/seeded/{pid}-*")):
        patch = open(f"{sd}/patch.diff").read()
        files = re.findall(r"^\+\+\+ b/(\S+)", patch, re.M)
        funcs = sorted({m.strip()[:90] for m in re.findall(r"^@@.*@@ (.*)$", patch, re.M) if m.strip()})
        needs = json.load(open(f"{sd}/meta.json"))["needs_to_manifest"].split(" First MISSED")[0][:260]
        used.append(f" - {', '.join(files)} ({'; '.join(funcs)}) - it needed: {needs}")
    extra = ""
    if used:
        extra = ("\n\nIMPORTANT extra constraint for this task: earlier attempts already used the following changes - do NOT touch these functions again and do not re-use "
                 "their ideas. Pick a DIFFERENT code site and mechanism that attacks a clause of the STATEMENT (or a combination of configuration values named in "
                 "QUANTIFIED OVER) that none of them attacked. " + FOCUS + ":\n" + "\n".join(used))
    if pid == "C20":
        extra += "\n\n" + 'Hint for this task only: the Windows and macOS modules cannot be imported directly on Linux; a demo may install small stand-ins before importing them (for `watchdog.observers.winapi`: set `ctypes.wintypes.DWORD = ctypes.c_uint32`, provide `ctypes.WinDLL = lambda name: <object whose attributes accept restype/errcheck/argtypes assignments>` and `ctypes.WinError`; for `watchdog.observers.fsevents`: put a module `_watchdog_fsevents` with a `NativeEvent` class (path, inode, flags, event_id and the is_* flag properties) into `sys.modules`; emitters can be driven synchronously through `queue_events(...)` with a plain `queue.Queue`).'
    open(f"{rd}/{pid}.prompt.txt", "w").write(BASE.replace("{RD}", rd).replace("{ID}", pid) + extra + "\n")
    print(pid, "prompt", len(BASE) + len(extra), "earlier changes listed:", len(used))
