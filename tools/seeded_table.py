#!/usr/bin/env python3
"""Prints the markdown table of /verif/seeded/*/meta.json (which check catches which independently written change)."""
import glob, json, os
rows = []
for f in sorted(glob.glob(os.path.join(os.path.dirname(os.path.dirname(os.path.abspath(__file__))), "seeded", "*", "meta.json"))):
    m = json.load(open(f))
    sid = f.split("/")[-2]
    checks = ", ".join(f"{k}: {v['verdict'].lower()}" for k, v in m["checks"].items()) + (f" (recorded before {m['obsolete_since']}, see text)" if m.get("obsolete_since") else "")
    rows.append(f"| {sid} | {m['breaks_property']} | {m['needs_to_manifest'][:230]} | {checks} |")
print("| seeded change | breaks | needs, in order to manifest | quick-tier verdicts |\n|---|---|---|---|")
print("\n".join(rows))
