#!/usr/bin/env python3
"""tools/mutants.py - automated sensitivity campaign: small syntactic changes of /repo (one per mutant), the ones that
survive the repository's own test suite are run against the quick tier of the checks that claim the changed file.

  tools/mutants.py run --n 150 --seed 1 --out mutants/round1.json [--files a.py,b.py] [--par 4]
  tools/mutants.py table mutants/round1.json

A mutant = one AST-located text substitution (comparison / boolean operator swap, negated condition, dropped call
statement, constant +-1, True<->False, +/-, |/&, `return x` -> `return None`).  Scratch copies of the repository live
under /dev/shm and are removed after each mutant.  Nothing here is a registered check; the result file documents
what the checks are (in)sensitive to, survivors are triaged by hand in DESIGN.md."""
import argparse, ast, json, os, random, shutil, subprocess, sys, time
from concurrent.futures import ThreadPoolExecutor

REPO = "/repo"
ROOT = os.path.dirname(os.path.dirname(os.path.abspath(__file__)))
FILES = {
    "observers/inotify_c.py": ["C08", "C12", "C02", "C01", "C07", "C03", "C19"],
    "observers/inotify_buffer.py": ["C08", "C12", "C01", "C07"],
    "observers/inotify.py": ["C11", "C03", "C01", "C07", "C14", "C06", "C19"],
    "observers/api.py": ["C13", "C04", "C05", "C16", "C06"],
    "observers/polling.py": ["C10", "C19", "C06"],
    "utils/dirsnapshot.py": ["C09", "C10"],
    "events.py": ["C15", "C14", "C16", "C03"],
    "utils/bricks.py": ["C16", "C04"],
    "utils/delayed_queue.py": ["C17", "C08"],
    "utils/event_debouncer.py": ["C18"],
    "tricks/__init__.py": ["C18"],
    "utils/patterns.py": ["C15"],
    "utils/__init__.py": ["C12", "C06"],
    "observers/read_directory_changes.py": ["C20"],
    "observers/winapi.py": ["C20"],
    "observers/fsevents.py": ["C20"],
}
SKIP_FUNCS = {"__repr__", "__str__", "__hash__", "main", "echo_class", "echo_module"}
CMP = {ast.Eq: "!=", ast.NotEq: "==", ast.Lt: "<=", ast.LtE: "<", ast.Gt: ">=", ast.GtE: ">", ast.Is: "is not", ast.IsNot: "is", ast.In: "not in", ast.NotIn: "in"}


def seg(src_lines, node):
    """(start offset, end offset) of a node in the joined source."""
    return node.lineno, node.col_offset, node.end_lineno, node.end_col_offset


class Gen(ast.NodeVisitor):
    def __init__(self, src):
        self.src = src
        self.lines = src.split("\n")
        self.off = [0]
        for l in self.lines:
            self.off.append(self.off[-1] + len(l.encode()) + 1)
        self.b = src.encode()
        self.out = []
        self.func = []

    def pos(self, lineno, col):
        return self.off[lineno - 1] + col

    def text(self, node):
        return self.b[self.pos(node.lineno, node.col_offset) : self.pos(node.end_lineno, node.end_col_offset)].decode()

    def add(self, node, new, op, start=None, end=None):
        s = self.pos(node.lineno, node.col_offset) if start is None else start
        e = self.pos(node.end_lineno, node.end_col_offset) if end is None else end
        old = self.b[s:e].decode()
        if old != new:
            self.out.append({"line": node.lineno, "start": s, "end": e, "old": old, "new": new, "op": op, "func": ".".join(self.func)})

    def visit_FunctionDef(self, node):
        if node.name in SKIP_FUNCS:
            return
        self.func.append(node.name)
        for st in node.body:
            # skip the docstring
            if isinstance(st, ast.Expr) and isinstance(st.value, ast.Constant) and isinstance(st.value.value, str):
                continue
            self.visit(st)
        self.func.pop()

    visit_AsyncFunctionDef = visit_FunctionDef

    def visit_ClassDef(self, node):
        self.func.append(node.name)
        for st in node.body:
            self.visit(st)
        self.func.pop()

    def visit_If(self, node):
        t = self.text(node.test)
        if "TYPE_CHECKING" in t or "platform" in t or "__name__" in t:
            return
        self.add(node.test, f"not ({t})", "negate-if")
        self.generic_visit(node)

    def visit_While(self, node):
        t = self.text(node.test)
        if t not in ("True",):
            self.add(node.test, f"not ({t})", "negate-while")
        self.generic_visit(node)

    def visit_Compare(self, node):
        if len(node.ops) == 1 and type(node.ops[0]) in CMP:
            l, r = self.text(node.left), self.text(node.comparators[0])
            self.add(node, f"{l} {CMP[type(node.ops[0])]} {r}", "compare")
        self.generic_visit(node)

    def visit_BoolOp(self, node):
        if len(node.values) == 2:
            a, b = self.text(node.values[0]), self.text(node.values[1])
            self.add(node, f"{a} {'or' if isinstance(node.op, ast.And) else 'and'} {b}", "and-or")
            self.add(node, a, "drop-right-operand")
            self.add(node, b, "drop-left-operand")
        self.generic_visit(node)

    def visit_UnaryOp(self, node):
        if isinstance(node.op, ast.Not):
            self.add(node, self.text(node.operand), "drop-not")
        self.generic_visit(node)

    def visit_BinOp(self, node):
        sw = {ast.Add: "-", ast.Sub: "+", ast.BitOr: "&", ast.BitAnd: "|"}
        if type(node.op) in sw and not (isinstance(node.left, ast.Constant) and isinstance(node.left.value, str)):
            self.add(node, f"{self.text(node.left)} {sw[type(node.op)]} {self.text(node.right)}", "arith")
        self.generic_visit(node)

    def visit_Constant(self, node):
        if node.value is True:
            self.add(node, "False", "bool-const")
        elif node.value is False:
            self.add(node, "True", "bool-const")
        elif isinstance(node.value, int) and not isinstance(node.value, bool) and abs(node.value) < 1000:
            self.add(node, str(node.value + 1), "int-const")

    def visit_Expr(self, node):
        if isinstance(node.value, ast.Call):
            t = self.text(node.value)
            if not t.startswith(("logger.", "logging.", "print(", "super().__init__", "warnings.")):
                self.add(node, "pass", "drop-call")
                self.generic_visit(node)
        elif isinstance(node.value, ast.Constant):
            return
        else:
            self.generic_visit(node)

    def visit_Return(self, node):
        if node.value is not None and not (isinstance(node.value, ast.Constant) and node.value.value is None):
            self.add(node, "return None", "return-none")
            self.generic_visit(node)

    def visit_AugAssign(self, node):
        sw = {ast.Add: "-=", ast.Sub: "+=", ast.BitOr: "&=", ast.BitAnd: "|="}
        if type(node.op) in sw:
            self.add(node, f"{self.text(node.target)} {sw[type(node.op)]} {self.text(node.value)}", "augassign")
        self.generic_visit(node)

    def visit_Raise(self, node):
        return

    def visit_Assert(self, node):
        return


def mutants_of(rel):
    src = open(f"{REPO}/src/watchdog/{rel}").read()
    g = Gen(src)
    g.visit(ast.parse(src))
    out = []
    for m in g.out:
        line = g.lines[m["line"] - 1]
        if "logger." in line or "# pragma: no cover" in line:
            continue
        m["file"] = rel
        out.append(m)
    return out


def apply(scratch, m):
    p = f"{scratch}/src/watchdog/{m['file']}"
    b = open(p, "rb").read()
    assert b[m["start"] : m["end"]].decode() == m["old"]
    nb = b[: m["start"]] + m["new"].encode() + b[m["end"] :]
    try:
        compile(nb, p, "exec")
    except SyntaxError:
        return False
    open(p, "wb").write(nb)
    return True


def evaluate(i, m, args):
    scratch = f"/dev/shm/vmut_{os.getpid()}_{i}"
    shutil.rmtree(scratch, ignore_errors=True)
    os.makedirs(scratch)
    res = dict(m)
    try:
        for d in ("src", "tests"):
            shutil.copytree(f"{REPO}/{d}", f"{scratch}/{d}")
        for f in ("pyproject.toml", "setup.cfg", "setup.py", "README.rst", "changelog.rst"):
            if os.path.exists(f"{REPO}/{f}"):
                shutil.copy(f"{REPO}/{f}", scratch)
        if not apply(scratch, m):
            res["status"] = "does-not-compile"
            return res
        env = dict(os.environ, PYTHONPATH=f"{scratch}/src", PYTHONDONTWRITEBYTECODE="1")
        t0 = time.time()
        if getattr(args, "skip_suite", False):
            suite_ok, tail = True, ["not re-run"]
        else:
          try:
            r = subprocess.run(["/venv/bin/python", "-m", "pytest", "-x", "-q", "-p", "no:cacheprovider", "-o", "addopts=", "--timeout=120"], cwd=scratch, env=env, capture_output=True, text=True, timeout=600)
            suite_ok = r.returncode == 0
            tail = r.stdout.strip().splitlines()[-1:] if r.stdout.strip() else []
          except subprocess.TimeoutExpired:
            suite_ok, tail = False, ["timeout"]
        res["suite"] = "passed" if suite_ok else "failed"
        res["suite_tail"] = tail[0][:120] if tail else ""
        res["suite_s"] = round(time.time() - t0, 1)
        if not suite_ok:
            res["status"] = "killed-by-suite"
            return res
        res["checks"] = {}
        for c in FILES[m["file"]]:
            e2 = dict(os.environ, VERIF_REPO_SRC=f"{scratch}/src", VERIF_REPLAY_DIR=f"{scratch}/replays")
            t1 = time.time()
            try:
                r = subprocess.run([f"{ROOT}/check", c, "--tier", "quick", "--no-evidence", "--jobs", str(args.jobs)], env=e2, capture_output=True, text=True, timeout=1800)
                rc = r.returncode
                first = [l for l in (r.stdout + r.stderr).splitlines() if l.startswith(("FAIL", "HARNESS", "INCONCL"))][:1]
            except subprocess.TimeoutExpired:
                rc, first = 2, ["timeout"]
            res["checks"][c] = {"rc": rc, "first": (first[0][:300] if first else ""), "wall": round(time.time() - t1, 1)}
            if rc == 1:
                res["status"] = "caught"
                res["caught_by"] = c
                return res
            if rc == 2 and not args.keep_going_on_error:
                res["status"] = "harness-error"
                res["caught_by"] = c
                return res
        res["status"] = "survived"
        return res
    finally:
        shutil.rmtree(scratch, ignore_errors=True)


def main():
    ap = argparse.ArgumentParser()
    sub = ap.add_subparsers(dest="cmd")
    r = sub.add_parser("run")
    r.add_argument("--n", type=int, default=100)
    r.add_argument("--seed", type=int, default=1)
    r.add_argument("--out", required=True)
    r.add_argument("--files", default="")
    r.add_argument("--par", type=int, default=4)
    r.add_argument("--jobs", type=int, default=8)
    r.add_argument("--keep-going-on-error", action="store_true")
    t = sub.add_parser("table")
    t.add_argument("file")
    c = sub.add_parser("count")
    rc = sub.add_parser("recheck")
    rc.add_argument("file")
    rc.add_argument("--par", type=int, default=2)
    rc.add_argument("--jobs", type=int, default=8)
    rc.add_argument("--keep-going-on-error", action="store_true")
    args = ap.parse_args()
    if args.cmd == "count":
        for f in FILES:
            print(f, len(mutants_of(f)))
        return
    if args.cmd == "recheck":
        # survivors of an earlier campaign against the checks as they are now (mutants whose place in the file has
        # changed since are left alone)
        d = json.load(open(args.file))
        todo = [m for m in d["mutants"] if m["status"] in ("survived", "harness-error")]

        def again(im):
            i, m = im
            b = open(f"{REPO}/src/watchdog/{m['file']}", "rb").read()
            if b[m["start"] : m["end"]].decode(errors="replace") != m["old"]:
                return m, None
            args.skip_suite = True
            return m, evaluate(10000 + i, {k: m[k] for k in ("file", "line", "start", "end", "old", "new", "op", "func")}, args)

        with ThreadPoolExecutor(max_workers=args.par) as ex:
            for m, res in ex.map(again, enumerate(todo)):
                if res is None:
                    m["recheck"] = "place changed since"
                else:
                    m["recheck"] = {"status": res["status"], "caught_by": res.get("caught_by"), "checks": {k: v["rc"] for k, v in res.get("checks", {}).items()}}
                print(m["file"], m["line"], m["op"], "->", m["recheck"] if isinstance(m["recheck"], str) else m["recheck"]["status"], m["recheck"].get("caught_by") if isinstance(m["recheck"], dict) else "", flush=True)
                json.dump(d, open(args.file, "w"), indent=1)
        return
    if args.cmd == "table":
        d = json.load(open(args.file))
        by = {}
        for m in d["mutants"]:
            by.setdefault(m["status"], []).append(m)
        print({k: len(v) for k, v in by.items()})
        for m in by.get("survived", []) + by.get("harness-error", []):
            print(f"{m['status']:13s} {m['file']}:{m['line']} [{m['op']}] {m['func']}: {m['old'][:70]!r} -> {m['new'][:70]!r}  checks={ {k: v['rc'] for k, v in m.get('checks', {}).items()} }")
        return
    files = [f for f in args.files.split(",") if f] or list(FILES)
    # the campaign works on a frozen copy of the repository, so that commits to /repo meanwhile do not disturb it
    global REPO
    head = subprocess.run(["git", "-C", REPO, "rev-parse", "--short", "HEAD"], capture_output=True, text=True).stdout.strip()
    base = f"/dev/shm/vmut_base_{os.getpid()}"
    shutil.rmtree(base, ignore_errors=True)
    os.makedirs(base)
    for d in ("src", "tests"):
        shutil.copytree(f"{REPO}/{d}", f"{base}/{d}")
    for f in ("pyproject.toml", "setup.cfg", "setup.py", "README.rst", "changelog.rst"):
        if os.path.exists(f"{REPO}/{f}"):
            shutil.copy(f"{REPO}/{f}", base)
    REPO = base
    rng = random.Random(args.seed)
    pool = []
    for f in files:
        ms = mutants_of(f)
        rng.shuffle(ms)
        pool.append(ms)
    # round robin over the files so that every file gets its share
    picked = []
    while len(picked) < args.n and any(pool):
        for ms in pool:
            if ms and len(picked) < args.n:
                picked.append(ms.pop())
    results = []
    t0 = time.time()
    with ThreadPoolExecutor(max_workers=args.par) as ex:
        for k, res in enumerate(ex.map(lambda im: evaluate(im[0], im[1], args), enumerate(picked))):
            results.append(res)
            print(f"[{k + 1}/{len(picked)} {time.time() - t0:.0f}s] {res['status']:16s} {res['file']}:{res['line']} [{res['op']}] {res['old'][:50]!r} -> {res['new'][:50]!r} {res.get('caught_by', '')}", flush=True)
            os.makedirs(os.path.dirname(os.path.abspath(args.out)), exist_ok=True)
            json.dump({"repo_head": head, "seed": args.seed, "n": len(picked), "mutants": results}, open(args.out, "w"), indent=1)
    shutil.rmtree(base, ignore_errors=True)


if __name__ == "__main__":
    main()
