#!/usr/bin/env python3
"""tools/seed_regress.py [seed dir ...] - re-confirm seeded changes against the current checks (all of /verif/seeded by
default): re-runs tools/seed_eval.py with the checks recorded in each meta.json (suite not re-run, its recorded result
is kept), rewrites meta.json and prints one line per (seed, check)."""
import glob, json, os, subprocess, sys
from concurrent.futures import ThreadPoolExecutor
dirs = [os.path.abspath(d) for d in sys.argv[1:]] or sorted(glob.glob("/verif/seeded/C*-*"))
def one(d):
    mp = os.path.join(d, "meta.json")
    old = json.load(open(mp))
    if old.get("obsolete_since"):
        return [f"{os.path.basename(d)} skipped: no longer a breaking change since {old['obsolete_since']}"]
    checks = list(old["checks"])
    r = subprocess.run([sys.executable, "/verif/tools/seed_eval.py", d, *checks, "--no-suite", "--meta", f"{old['breaks_property']}|{old['needs_to_manifest']}"], capture_output=True, text=True)
    new = json.load(open(mp))
    new["confirmed"]["baseline_suite_with_patch"] = old["confirmed"].get("baseline_suite_with_patch")
    for k in old:
        if k not in new:
            new[k] = old[k]
    json.dump(new, open(mp, "w"), indent=1)
    out = []
    for c in checks:
        o, n = old["checks"][c]["verdict"], new["checks"][c]["verdict"]
        out.append(f"{os.path.basename(d)} {c} {o} -> {n}{'   <<<<< CHANGED' if o != n else ''}")
    return out
with ThreadPoolExecutor(max_workers=int(os.environ.get("JOBS", "2"))) as ex:
    for lines in ex.map(one, dirs):
        for l in lines:
            print(l, flush=True)
