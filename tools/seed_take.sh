#!/bin/bash
# tools/seed_take.sh <round dir> <Cxx> <n> "<needs text>" [CHECK ...]  - copy a sub-agent's deliverables into seeded/<Cxx>-<n>/ and confirm them
set -e
src=$1/$2; id=$2; n=$3; needs=$4; shift 4
checks=${@:-$id}
dst=/verif/seeded/$id-$n
mkdir -p $dst
cp $src/patch.diff $src/demo.py $dst/
[ -f $src/NOTES.md ] && cp $src/NOTES.md $dst/
python3 /verif/tools/seed_eval.py $dst $checks --meta "$id|$needs"
