#!/usr/bin/env python3
"""tools/seed_eval.py <seed dir> <CHECK> [<CHECK> ...] [--tier T] [--no-suite]
Confirms a seeded change in a scratch worktree of /repo HEAD (removed afterwards):
  1. demo passes on the unchanged tree, 2. patch applies, 3. baseline suite passes with it, 4. demo fails with it,
  5. runs the given checks against the patched tree and reports CAUGHT / MISSED per check."""
import json, os, subprocess, sys, tempfile, shutil, time
args = sys.argv[1:]
tier = "quick"
if "--tier" in args:
    i = args.index("--tier"); tier = args[i + 1]; del args[i:i + 2]
suite = "--no-suite" not in args
args = [a for a in args if a != "--no-suite"]
meta = None
if "--meta" in args:
    i = args.index("--meta"); meta = args[i + 1]; del args[i:i + 2]
base = "HEAD"
if "--base" in args:
    i = args.index("--base"); base = args[i + 1]; del args[i:i + 2]
sd, checks = os.path.abspath(args[0]), args[1:]
if base == "HEAD" and os.path.exists(os.path.join(sd, "meta.json")):
    base = json.load(open(os.path.join(sd, "meta.json"))).get("base", "HEAD")  # a change that cannot be re-based keeps its base commit
d = tempfile.mkdtemp(prefix="vse_")
wt = os.path.join(d, "wt")
def sh(cmd, **kw):
    return subprocess.run(cmd, shell=True, capture_output=True, text=True, **kw)
res = {"seed": os.path.basename(sd), "head": sh(f"git -C /repo rev-parse --short {base}").stdout.strip()}
try:
    assert sh(f"git -C /repo worktree add --detach -q {wt} {base}").returncode == 0
    env = dict(os.environ, PYTHONPATH=f"{wt}/src", PYTHONDONTWRITEBYTECODE="1")
    demo = os.path.join(sd, "demo.py")
    def run_demo():
        r = subprocess.run(["/venv/bin/python", "-B", demo], cwd=wt, env=env, capture_output=True, text=True, timeout=900)
        return r.returncode, (r.stdout + r.stderr)[-400:]
    res["demo_without"] = run_demo()[0]
    base_fails = set()
    if base != "HEAD":
        # an older base may itself fail a check that was strengthened since (a defect repaired later): such a check says nothing about the change
        for c in checks:
            e2 = dict(os.environ, VERIF_REPO_SRC=f"{wt}/src", VERIF_REPLAY_DIR=f"{d}/replays")
            r = subprocess.run(["/verif/check", c, "--tier", tier, "--no-evidence"], env=e2, capture_output=True, text=True)
            if r.returncode != 0:
                base_fails.add(c)
    ap = sh(f"git -C {wt} apply {sd}/patch.diff")
    res["patch_applies"] = ap.returncode == 0
    if not res["patch_applies"]:
        res["apply_err"] = ap.stderr[-300:]
    else:
        rc, out = run_demo(); res["demo_with"] = rc; res["demo_out"] = out[-300:]
        if suite:
            t = subprocess.run("/venv/bin/python -m pytest -q -p no:cacheprovider --timeout=900 -q 2>&1 | tail -1", shell=True, cwd=wt, env=env, capture_output=True, text=True)
            res["suite"] = t.stdout.strip()
        for c in checks:
            if c in base_fails:
                res[f"check_{c}"] = {"rc": None, "verdict": "BASE-FAILS", "first": "the unpatched base commit already fails this check (defect repaired later)", "wall": 0}
                continue
            t0 = time.time()
            e2 = dict(os.environ, VERIF_REPO_SRC=f"{wt}/src", VERIF_REPLAY_DIR=f"{d}/replays")
            r = subprocess.run(["/verif/check", c, "--tier", tier, "--no-evidence"], env=e2, capture_output=True, text=True)
            lines = [l for l in (r.stdout + r.stderr).splitlines() if l.startswith(("FAIL", "HARNESS", "INCONCL"))]
            res[f"check_{c}"] = {"rc": r.returncode, "verdict": "CAUGHT" if r.returncode == 1 else ("MISSED" if r.returncode == 0 else "ERROR"), "first": (lines[0][:500] if lines else ""), "wall": round(time.time() - t0, 1)}
finally:
    sh(f"git -C /repo worktree remove --force {wt}")
    shutil.rmtree(d, ignore_errors=True)
print(json.dumps(res, indent=1))
if meta is not None:
    prop, _, needs = meta.partition("|")
    if not suite and os.path.exists(os.path.join(sd, "meta.json")):
        res["suite"] = json.load(open(os.path.join(sd, "meta.json")))["confirmed"].get("baseline_suite_with_patch")  # keep the recorded result
    m = {**({"base": res["head"]} if base != "HEAD" else {}), "breaks_property": prop.strip(), "needs_to_manifest": needs.strip(), "written_by": "independent sub-agent that saw only the property text and a scratch worktree of /repo",
         "confirmed": {"repo_head": res["head"], "demo_without_patch_exit": res.get("demo_without"), "demo_with_patch_exit": res.get("demo_with"), "baseline_suite_with_patch": res.get("suite"),
                       "how": "tools/seed_eval.py: scratch worktree of /repo " + ("HEAD" if base == "HEAD" else "at " + res["head"]) + ", git apply patch.diff, demo.py with PYTHONPATH=<worktree>/src before and after, full pytest suite, ./check <ID> --tier %s with VERIF_REPO_SRC=<worktree>/src" % tier},
         "checks": {k[6:]: v for k, v in res.items() if k.startswith("check_")}}
    json.dump(m, open(os.path.join(sd, "meta.json"), "w"), indent=1)
