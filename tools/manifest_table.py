"""Source of truth for MANIFEST.json (python tools/gen_manifest.py regenerates it)."""

ENGINES = [
    {"name": "pure", "path": "vlib/vfs.py, vlib/shims.py, props/", "serves_properties": ["C09", "C10", "C14", "C15", "C16", "C20"],
     "kind_free_text": "Hypothesis strategies + bounded exhaustive enumeration over pure functions, a virtual file system behind the injectable stat/listdir, import shims for the Windows/macOS layers"},
    {"name": "fsops", "path": "vlib/fsops.py", "serves_properties": ["C01", "C02", "C03", "C07", "C11", "C19", "C12"],
     "kind_free_text": "model-directed operation histories executed against the real inotify kernel and the public Observer API; sentinel drain; replay / probe / justification oracles"},
    {"name": "dsched", "path": "vlib/dsched/", "serves_properties": ["C04", "C05", "C06", "C08", "C12", "C13", "C16", "C17", "C18"],
     "kind_free_text": "deterministic scheduler running the real library code on substitute threading/time/queue primitives; the schedule is a generated input (bounded DFS + random); simulated inotify kernel and process table"},
]

PENDING = "check not built yet in this round (work in progress, see DESIGN.md 6a for the order)"

CHECKS = {
    "C09": {
        "engine": "pure",
        "design_ref": "DESIGN.md §4 C09",
        "technique": "property-based testing: exhaustive small-universe enumeration + Hypothesis tree pairs, differential against a reference diff keyed by (ino,dev) plus algebraic laws",
        "text": "Every pair of virtual trees of a bounded universe (exhaustive) and random larger pairs are snapshotted by the real DirectorySnapshot and diffed; the result must equal an independent reference diff and satisfy the set equation, list discipline, self-diff, swap and ignore_device laws. Exploration: holds on everything generated, says nothing beyond the universe.",
        "note": "Trusted: vlib/vfs.py (virtual stat/listdir) and the 10-line reference diff. Inode numbers are unique per tree (the statement's precondition).",
    },
    "C10": {
        "engine": "pure",
        "category": "fault_enumeration",
        "design_ref": "DESIGN.md §4 C10",
        "technique": "property-based testing with fault enumeration: generated chains of virtual tree states polled by the real PollingEmitter, a fault at every stat/listdir position, oracle = reference diff of effective trees; plus generated schedules (bounded DFS + random) of the emitter thread against one change and stop() on the virtual clock",
        "text": "The real PollingEmitter is driven synchronously over a virtual file system; every (stat|listdir, path) position of a walk is failed with ENOENT/ENOTDIR/EACCES or preceded by a racing delete / dir-to-file replacement (exhaustive for the small universe, random for larger chains); per poll the multiset, classes, paths and deleted-before-created order of the queued events must equal the reference diff of the effective trees; root loss gives exactly one DirDeletedEvent and a stopped emitter; the snapshot the emitter keeps must hand back, through every accessor, the stat data of exactly the effective tree. Concurrent part: the real emitter thread under the deterministic scheduler, one change and stop() at generated times (also mid-walk): its queue holds nothing but the events of that change, each once, all of them if a full poll lay in between.",
        "note": "Trusted: vlib/vfs.py, the effective-tree rule and reference diff written in props/c10.py; for the concurrent part vlib/dsched and a file system that serves every walk from one consistent state.",
    },
    "C15": {
        "engine": "pure",
        "design_ref": "DESIGN.md §4 C15",
        "technique": "property-based testing: exhaustive product over event classes x paths x pattern/regex lists x flags + Hypothesis cells, compared with an independent reference evaluator (cross-checked with pathlib)",
        "text": "Every cell of a bounded product (12 event classes, 7-10 paths, 10-13 pattern lists squared, regex lists, case/ignore flags, str/bytes) and random larger cells are dispatched through recording subclasses of the three handler classes; the recorded callback sequence must equal the reference verdict; filter_paths/match_any_paths are compared with the reference filter; identical include/exclude patterns must raise ValueError.",
        "note": "Trusted: the reference matcher in props/c15.py (cross-checked against PurePosixPath.match on every evaluated cell; a disagreement aborts the run as inconclusive). No backslash/colon/leading '//' in paths.",
    },
    "C14": {
        "engine": "pure",
        "design_ref": "DESIGN.md §4 C14",
        "technique": "property-based testing: exhaustive small real directory trees over a prefix-colliding name universe + Hypothesis trees, compared with an independent scandir enumeration",
        "text": "Directory trees whose inner names repeat the destination's own path (relative and absolute spellings, str and bytes) are created on disk; both synthetic-event generators must yield exactly one correctly flavoured, synthetic event per descendant with dest = dest dir + rel and src = src dir + rel, parents first.",
        "note": "Trusted: the scandir enumeration in props/c14.py. No symlinks; normalized src/dest.",
    },
    "C16": {
        "engine": "pure+dsched",
        "design_ref": "DESIGN.md §4 C16",
        "technique": "property-based testing: exhaustive put/get sequences against a nondeterministic sequential reference model, generated schedules + linearizability check for the concurrent part, Hypothesis pairs for the equality/hash law, a generated backlog of 20000-300000 events through EventEmitter.queue_event()",
        "text": "All put/get_nowait sequences up to the length bound over equal-but-distinct and different (event, watch) items run on the real EventQueue and must be behaviours of the specification (FIFO, only a permitted consecutive-duplicate drop); concurrent producer/consumer histories under generated schedules must be linearizable w.r.t. the same specification; event equality must be class + five fields, with consistent hashes; a backlog of distinct events fed into the observer's own queue with nobody consuming comes out complete and in order.",
        "note": "A drop is permitted, not required, by the statement; a queue that never coalesces is therefore not reported. Trusted: the sequential specification in props/c16.py; for the concurrent part the substitute primitives of vlib/dsched.",
    },
    "C01": {
        "engine": "fsops",
        "design_ref": "DESIGN.md §3.1, §4 C01",
        "technique": "property-based testing: model-directed operation histories (Hypothesis + bounded exhaustive) against the real inotify kernel, replay oracle at every drain point, bounded delta-debugging of failures",
        "text": "Generated operation histories (bursts obeying the directory pacing rule by construction; recursive/non-recursive; str/bytes roots; read-buffer sizes 272..default; micro-sleeps) are executed on a scratch tree watched by the real InotifyObserver; after every burst the stream is drained behind a sentinel and the tree obtained by replaying created/deleted/moved events onto the start tree must equal os.walk+lstat of the disk in paths and kinds. All histories of length <= 2 over a small universe are enumerated (quick: a seed-dependent quarter).",
        "note": "Real kernel, real threads: timing is sampled, not controlled. Oracle is evaluated only at drain points and never asserts absence within a time window. Trusted: vlib/fsops.py (model, executor, sentinel drain, lenient replay with strict final equality).",
    },
    "C02": {
        "engine": "fsops",
        "design_ref": "DESIGN.md §3.1, §4 C02",
        "technique": "property-based testing: generated tree-reshaping histories on the real kernel, coverage probe of every directory found on disk after the final drain (plus C01's replay oracle on the way)",
        "text": "Histories biased to directory operations (nested creation bursts, arrive-then-rename, rename chains incl. ancestors, move-in of pre-built trees, relative and absolute roots, recursive and non-recursive) run against the real InotifyObserver; afterwards every directory enumerated from disk receives a uniquely named probe file whose FileCreatedEvent must arrive under exactly the real path before the following sentinel; a non-recursive watch must report nothing deeper than the root's children.",
        "note": "Same trust base as C01. A nested creation burst whose top directory is renamed in the same burst is not generated (the rename changes the names of directories created moments earlier - outside the pacing condition).",
    },
    "C03": {
        "engine": "fsops",
        "design_ref": "DESIGN.md §4 C03",
        "technique": "property-based testing: (a) generated histories on the real kernel with every delivered event judged by a justification rule derived from the operation history; (b) exhaustive state x single-op cells compared with the statement's per-operation contract",
        "text": "Soundness: histories as in C01 plus nested creation bursts and operations on entries that left the tree, normal and full emitter; each event of each drain window must name an in-scope entry of the right kind that the window's operations created/removed/renamed/modified in that way, moves must join old and new name of one entry, synthetic only below a directory that arrived by a move. Completeness: every tree state of a small universe x every single op x recursive x full: the statement's required events must all arrive, structural events must be exactly the required ones, all else must be justified.",
        "note": "Same trust base as C01 plus vlib/justify.py. Identical adjacent events count once (queue coalescing). A move degraded to deleted+created is re-executed up to 3 times before it is reported (pairing is time based).",
    },
    "C07": {
        "engine": "fsops",
        "category": "fault_enumeration",
        "design_ref": "DESIGN.md §3.1, §4 C07",
        "technique": "property-based testing with injected races: generated histories (ext ops, re-used names, nested bursts, API re-scheduling, root deletion; one in three without the pacing condition; event filters; root spellings) on the real kernel plus a real racing file-system operation injected at generated call indices of the library's own lookups; oracles: no dying thread, coverage that certainly existed still reports, root deletion contract",
        "text": "Histories that C01 excludes run against the real observer while, at a generated index of the library's inotify_add_watch / os.walk calls, the harness deletes, renames aside, re-creates or lets blink (gone for that one call, back with a file inside) the very entry about to be looked at; no library thread may end with an unhandled exception, three sentinels in the living root must never go unanswered, every start directory that kept path and inode (every directory of the final tree when no race was injected) must still report a probe, a second handler on the same watch must see it too, and deleting the root must yield exactly one DirDeletedEvent(root), nothing after it and a stopped emitter.",
        "note": "Real kernel; the race outcome is produced by the real kernel (no faked errno). An OSError raised to the caller of schedule() because a directory vanished during the initial walk is treated as an allowed outcome (not a dying thread). Trusted: vlib/fsops.py and the proxies in props/c07.py.",
    },
    "C19": {
        "engine": "fsops",
        "design_ref": "DESIGN.md §4 C19",
        "technique": "property-based testing: generated histories over non-ASCII and undecodable names on the real kernel, for every root spelling/type and three observer kinds; type and name predicate on every delivered path",
        "text": "For str / bytes / pathlib.Path roots in absolute, relative and trailing-slash spellings (root names with non-ASCII and undecodable bytes too), histories incl. directory renames with descendants and move-in of trees run against the inotify (normal and full) and polling observers; every non-empty src/dest path of every event (synthetic and parent-directory events included) must have the caller's path type and, after os.fsencode, name an entry the history really had under the root as given.",
        "note": "Trusted: vlib/fsops.py, the model's set of names. The root itself is accepted with or without its trailing separator.",
    },
    "C11": {
        "engine": "fsops",
        "design_ref": "DESIGN.md §4 C11",
        "technique": "property-based testing: differential between a filtered and an unfiltered watch of the same root under one observer (metamorphic relation filtered == filter(unfiltered)), exhaustive over singleton and pair filters, Hypothesis for larger subsets and histories",
        "text": "Every singleton and pair filter over the 11 concrete classes and the two base classes (quick: all singletons, a seed-dependent quarter of the pairs) x recursive x normal/full runs a fixed history with boundary moves and late-arriving directories, random larger filters run generated single-op histories; per operation both logs are cut at the same logical sentinel event and the collapsed filtered stream must equal the collapsed isinstance-filtered unfiltered stream.",
        "note": "Assumes two inotify instances on one directory see identical native streams when operations are issued one at a time. A filtered watch that never reaches the cut event within 10 s although the unfiltered one has it is reported as a missing event. Trusted: vlib/fsops.py, sentinel sequence in props/c11.py.",
    },
    "C17": {
        "engine": "dsched",
        "design_ref": "DESIGN.md §3.2, §4 C17",
        "technique": "property-based testing over schedules: the real DelayedQueue on substitute threading/time under a deterministic scheduler; exhaustive DFS under a preemption bound on fixed programs + Hypothesis programs x random schedules; history oracle on a virtual clock",
        "text": "Producer / consumer / remover / closer programs with virtual gaps around the delay (d/2, d-eps, d, d+eps) run the real DelayedQueue with a scheduling point at every source line of delayed_queue.py; every schedule with <= 1 (quick) / 2 (thorough) preemptions of 6 fixed programs is enumerated, random programs get random schedules; the recorded history must show put order, exactly-once hand-out by get xor remove, no delayed element before put time + d, nothing lost, the strict-clock lateness bound, and the end marker for blocked and later get() after close() (a deadlock state is the violation).",
        "note": "Trusted: vlib/dsched (substitute primitives, differential-tested against the real ones in setup; strict virtual clock). Preemption granularity is a source line; atomicity of single bytecodes is assumed.",
    },
    "C08": {
        "engine": "dsched",
        "design_ref": "DESIGN.md §3.2, §4 C08",
        "technique": "property-based testing over inputs and schedules: generated native record sequences, batch cuts and gaps around the pairing delay fed through a simulated inotify kernel into the real Inotify/InotifyBuffer/DelayedQueue under a deterministic scheduler (bounded DFS + random schedules); exactly-once / order / pairing oracle on a virtual clock",
        "text": "Byte-exact inotify_event records (moves with, without and with swapped partners, other events, a sub-watch's IN_IGNORED) are queued by a kernel model in generated batches with gaps of d/2, d-eps, d, d+eps, 2d and generated records-per-read cuts; the real reader, buffer and delay queue run with line-level scheduling points; every delivered item is checked: each record exactly once, singles in kernel order, a pair between its halves and only for the two halves of one cookie, an unpaired MOVED_FROM never before d, a partner queued strictly before the deadline always paired, end marker after close. Every cut of every sequence up to length 4/5 over a reduced alphabet is enumerated; 7 fixed programs get all schedules with <= 1/2 preemptions.",
        "note": "Trusted: vlib/dsched substitutes, vlib/simkernel.py (validated against the real kernel in setup). Promptness of non-move events is not asserted (the statement gives no bound).",
    },
    "C04": {
        "engine": "dsched",
        "design_ref": "DESIGN.md §3.2, §4 C04",
        "technique": "property-based testing over client programs and schedules: the real BaseObserver with scripted emitters under a deterministic scheduler (bounded DFS over fixed programs + random schedules over Hypothesis programs), history invariants on logical time",
        "text": "Small client programs (1-3 watches incl. equal-key schedules, 1-3 handlers some calling the API re-entrantly, scripted emitters, 0-2 API threads) run the real observer, dispatcher and event queue with a scheduling point at every source line of api.py / bricks.py / queue.py / utils; the recorded history must show: no (handler, event) pair delivered more often than queued, per handler and watch a subsequence of queue order, callbacks only for handlers registered by the call history, every event of a continuously registered pair delivered, no dying library thread, no deadlock, all threads finished after stop()+join().",
        "note": "Trusted: vlib/dsched substitutes (differential-tested in setup). Completeness is asserted only for registrations that no removal overlaps; events overlapping a registry change are 'may'.",
    },
    "C05": {
        "engine": "dsched",
        "design_ref": "DESIGN.md §3.2, §4 C05",
        "technique": "property-based testing over client programs and schedules (as C04) with removal-heavy scripts; oracle on the logical times of removal calls, callbacks and emitter activity",
        "text": "Removal calls (unschedule, remove_handler_for_watch, unschedule_all, stop) are issued by API threads and re-entrantly from handlers at schedule-generated positions of the event stream; for every removal that returned at t_R no callback of a removed (handler, watch) may begin after t_R unless a later registration was invoked before it, and every emitter instance of an unscheduled watch created before the call has finished and queues nothing after t_R.",
        "note": "Trusted: vlib/dsched substitutes. A callback in progress when the removal is invoked is not a violation.",
    },
    "C13": {
        "engine": "dsched",
        "category": "fault_enumeration",
        "design_ref": "DESIGN.md §4 C13",
        "technique": "model-based (stateful) property testing: generated API call sequences with an emitter failure injected at every position, executed on the real BaseObserver and compared step by step with a reference map model; exhaustive for short sequences, Hypothesis beyond",
        "text": "Call sequences over 8 watches (2 paths x recursive x filter, equal ones on purpose) and 3 handlers, with schedule() calls whose emitter construction or start is made to fail, run single-threaded under the deterministic scheduler; after every call the emitters must be exactly the model's watches and a unique marker queued through every live emitter must reach exactly the model's handler set; unknown watches/handlers must raise KeyError and change nothing. All sequences of length <= 3/4 over a 1-watch/2-handler universe (x with/without a leading start) are enumerated.",
        "note": "The model keys are plain (path, recursive, filter) tuples, independent of ObservedWatch.__eq__. Single application thread; interleavings belong to C04-C06.",
    },
    "C06": {
        "engine": "dsched",
        "design_ref": "DESIGN.md §3.2, §4 C06",
        "technique": "property-based testing over API call orders and schedules: real observer with scripted, inotify-over-simulated-kernel and polling-over-VFS emitters under a deterministic scheduler; exhaustive short call sequences, bounded DFS over fixed programs, random programs x random schedules, flood programs (thousands of events in one pass); deadlock / livelock / thread-leak oracle",
        "text": "Every sequence of up to 3 (quick) / 4 (thorough) calls from {start, schedule, unschedule, unschedule_all, stop, vanish = the watched root disappears} x three emitter kinds runs under the default schedule; sixteen fixed programs (re-entrant calls from callbacks, a root that disappears, start() retried after a failing start(), a watched sub-directory moved out of the tree) get every schedule with <= 1/2 preemptions at line granularity; random programs get random schedules. Each run ends with stop(); join() on main. A state with no runnable thread and no timed waiter while a thread is unfinished is a deadlock; an exhausted step budget a livelock; any library thread (observer, emitter, InotifyBuffer reader) alive after quiescence a leak; an uncaught exception in a library thread is reported too.",
        "note": "Trusted: vlib/dsched, vlib/simkernel.py (validated against the real kernel in setup), vlib/vfs.py. Calls may raise; the final stop()+join() is part of every program, so a schedule() issued after an earlier stop() is cleaned up by the final stop().",
    },
    "C12": {
        "engine": "fsops+dsched",
        "category": "fault_enumeration",
        "design_ref": "DESIGN.md §4 C12",
        "technique": "property-based testing with fault enumeration: (a) model-based cycles against the real kernel counting /proc/self/fd and library threads, (b) generated schedules of close() vs the reader on a simulated kernel that flags any use of a closed descriptor, (c) a failure injected at every kernel call of watch construction",
        "text": "(a) Generated sequences of schedule (existing tree / missing path / equal watch) / unschedule / start / stop+join / new observer / deletion of a watched root run against the real kernel; after every step the descriptor and library-thread counts must equal the model (3 descriptors + 2 threads per started watch, 1 thread per running observer). (b) Inotify + InotifyBuffer with reader, consumer, event source and a closer run under every schedule with <= 1/2 preemptions at line granularity of inotify_c.py/inotify_buffer.py (plus random programs and schedules): all three descriptors closed exactly once, no read/poll/write/close on a closed number. (c) For trees of 1-6 directories inotify_init and every inotify_add_watch fail in turn with ENOENT/ENOSPC/EMFILE/EACCES: the call raises or succeeds and no descriptor stays open without owner; after stop()+join() none is open.",
        "note": "Trusted: /proc/self/fd as descriptor count, vlib/simkernel.py (validated against the real kernel in setup), vlib/dsched. inotify_add_watch/rm_watch on a closed descriptor is logged, not judged.",
    },
    "C18": {
        "engine": "dsched",
        "design_ref": "DESIGN.md §3.2, §4 C18",
        "technique": "property-based testing over programs and schedules: the real EventDebouncer / ProcessWatcher / AutoRestartTrick / ShellCommandTrick on substitute threading/time with a simulated process table under a deterministic scheduler (bounded DFS + random), history oracle on the virtual clock",
        "text": "Debouncer: event/stop sequences with gaps of I/2, I-eps, I, I+eps, 2I: every event exactly once, in order, batches never earlier than I after their last event, nothing after stop(), everything delivered at quiescence, thread exits. AutoRestartTrick over a process table whose children exit by themselves at generated times, die some time after SIGINT or need SIGKILL: never two children alive, no child alive or started after stop() returned, helper threads gone, exact restart counts for stimuli >= 2 s apart. ShellCommandTrick: no overlapping commands under wait_for_process/drop_during_process. Eight fixed programs get all schedules with <= 1/2 preemptions at line granularity; random programs get random schedules.",
        "note": "Trusted: vlib/dsched, vlib/simproc.py (process exits are points on the virtual clock; SIGKILL is immediate). Events are fed serially through dispatch().",
    },
    "C20": {
        "engine": "pure",
        "design_ref": "DESIGN.md §3.3, §4 C20",
        "technique": "property-based testing: encoder-driven round trips of the two binary buffer formats (Hypothesis), and generated histories executed on a scratch tree, rendered into native notification batches by documented-semantics simulators and fed synchronously to the real Windows / FSEvents emitters; replay, rename, boundary and scope oracles",
        "text": "(A) FILE_NOTIFY_INFORMATION and inotify_event buffers encoded by encoders written here (1-40 records, names 0-255 units incl. byte-order-mark characters, every padding) must decode to exactly the records encoded. (W/F) C01-style histories (every history of length <= 2 of a small universe + random ones) run on a real scratch directory; renderers turn each op into ReadDirectoryChangesW actions / FSEvents items (with inode, flags, optional per-item coalescing and arbitrary batch cuts); the real WindowsApiEmitter / FSEventsEmitter, imported through shims, translate them; replaying the result must reproduce the tree, a rename delivered in one batch must be one moved event plus one synthetic per descendant, boundary moves must be created/deleted, a non-recursive FSEvents watch must report nothing out of scope.",
        "note": "Trusted base: the two renderers (written from platform documentation; only behaviour the documentation clearly allows is generated) and vlib/shims.py. Four known findings are excluded by construction and re-checked by their exact reproducers on every run (known_findings.json).",
    },
}

ALL = [f"C{i:02d}" for i in range(1, 21)]
NOT_APPLICABLE = [{"property_id": p, "reason": PENDING} for p in ALL if p not in CHECKS]
