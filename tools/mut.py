#!/usr/bin/env python3
"""Sensitivity helper: tools/mut.py <PROP> <relfile> <old> <new> [--tier T] -- copies /repo/src to a scratch dir,
replaces exactly one occurrence of <old> by <new> in src/watchdog/<relfile>, runs ./check <PROP> --no-evidence against the
copy, removes the copy.  Prints CAUGHT / MISSED."""
import os, shutil, subprocess, sys, tempfile
args = sys.argv[1:]
tier = "quick"
if "--tier" in args:
    i = args.index("--tier"); tier = args[i+1]; del args[i:i+2]
count = 1
if "--count" in args:
    i = args.index("--count"); count = int(args[i+1]); del args[i:i+2]
prop, rel, old, new = args
d = tempfile.mkdtemp(prefix="vmut_")
try:
    shutil.copytree("/repo/src", d + "/src")
    p = os.path.join(d, "src/watchdog", rel)
    s = open(p).read()
    if s.count(old) != count:
        print(f"pattern occurs {s.count(old)} times (expected {count})"); sys.exit(3)
    open(p, "w").write(s.replace(old, new))
    env = dict(os.environ, VERIF_REPO_SRC=d + "/src", VERIF_REPLAY_DIR=d + "/replays")
    r = subprocess.run(["/verif/check", prop, "--tier", tier, "--no-evidence"], env=env, capture_output=True, text=True)
    out = r.stdout + r.stderr
    lines = [l for l in out.splitlines() if l.startswith(("FAIL", "VIOLATION", "OK", "NOT-OK", "HARNESS", "INCONCL"))]
    print("\n".join(l[:400] for l in lines[:6]))
    print("CAUGHT" if r.returncode == 1 else f"MISSED rc={r.returncode}")
    if r.returncode not in (0, 1): print(out[-3000:])
finally:
    shutil.rmtree(d, ignore_errors=True)
