"""Self-test of the dsched substitutes: (i) differential against the real primitives for sequential behaviour
(Hypothesis), (ii) litmus programs with known outcome sets under exhaustive DFS.  Exit 0 / non-zero."""
import os, sys, threading, time, queue
sys.path.insert(0, os.path.dirname(os.path.dirname(os.path.abspath(__file__))))
import hypothesis
from hypothesis import given, settings, strategies as st, HealthCheck
from vlib.dsched import core, explore, loader

OPS = st.lists(st.tuples(st.sampled_from(["acq", "acq_nb", "rel", "locked", "r_acq", "r_acq_nb", "r_rel", "ev_set", "ev_clear", "ev_is", "ev_wait0",
                                           "c_acq", "c_rel", "c_notify", "c_wait0", "q_put", "q_get_nb", "q_size"]), st.integers(0, 3)), max_size=25)

def run_ops(ops, T, Q):
    lock, rlock, ev = T.Lock(), T.RLock(), T.Event()
    cond = T.Condition(T.Lock())
    q = Q.Queue()
    out = []
    held = 0; rheld = 0; cheld = False
    for op, arg in ops:
        try:
            if op == "acq":
                if held: out.append("skip"); continue   # would block forever
                out.append(lock.acquire()); held = 1
            elif op == "acq_nb":
                r = lock.acquire(False); out.append(r); held = held or r
            elif op == "rel":
                lock.release(); out.append("ok"); held = 0
            elif op == "locked": out.append(lock.locked())
            elif op == "r_acq": out.append(rlock.acquire()); rheld += 1
            elif op == "r_acq_nb": out.append(rlock.acquire(False)); rheld += 1
            elif op == "r_rel": rlock.release(); out.append("ok"); rheld -= 1
            elif op == "ev_set": ev.set(); out.append("ok")
            elif op == "ev_clear": ev.clear(); out.append("ok")
            elif op == "ev_is": out.append(ev.is_set())
            elif op == "ev_wait0": out.append(ev.wait(0.01 * arg))
            elif op == "c_acq":
                if cheld: out.append("skip"); continue
                out.append(cond.acquire()); cheld = True
            elif op == "c_rel": cond.release(); out.append("ok"); cheld = False
            elif op == "c_notify": cond.notify(arg); out.append("ok")
            elif op == "c_wait0": out.append(cond.wait(0.01 * (arg + 1)))
            elif op == "q_put": q.put(arg); out.append("ok")
            elif op == "q_get_nb": out.append(q.get_nowait())
            elif op == "q_size": out.append(q.qsize())
        except Exception as e:
            out.append(type(e).__name__)
    return out

n_diff = [0]
@hypothesis.seed(int(os.environ.get("VERIF_SEED", "1")))
@settings(max_examples=400, database=None, deadline=None, suppress_health_check=list(HealthCheck))
@given(OPS)
def test_diff(ops):
    real = run_ops(ops, threading, queue)
    res = core.Scheduler(explore.PrefixChooser()).run(lambda: run_ops(ops, core.fake_threading, core.fake_queue))
    assert res.deadlock is None and res.main_exc is None, (res.deadlock, res.main_exc)
    assert res.value == real, (ops, real, res.value)
    n_diff[0] += 1

def litmus():
    th = core.fake_threading
    results = {}
    # 1. unlocked counter: lost update must be reachable with line points, never with a lock
    def prog(locked):
        def main():
            box = {"n": 0}
            lk = th.Lock()
            def inc():
                if locked:
                    with lk:
                        v = box["n"]
                        box["n"] = v + 1
                else:
                    v = box["n"]
                    box["n"] = v + 1
            ts = [th.Thread(target=inc) for _ in range(2)]
            for t in ts: t.start()
            for t in ts: t.join()
            return box["n"]
        return main
    from vlib.dsched import loader as L
    import types
    m = types.ModuleType("litmus"); m.__dict__["prog"] = prog
    # line points on this file's functions
    L.set_line_points([sys.modules[__name__]])
    for locked in (False, True):
        seen = set()
        def rw(prefix):
            r = core.Scheduler(explore.PrefixChooser(prefix)).run(prog(locked))
            assert r.deadlock is None and not r.uncaught
            seen.add(r.value)
            return r.decisions
        runs, done = explore.dfs(rw, 2)
        results[("counter", locked)] = (sorted(seen), runs, done)
    assert results[("counter", False)][0] == [1, 2], results
    assert results[("counter", True)][0] == [2], results
    # 2. lock order inversion: deadlock reachable
    def inv():
        a, b = th.Lock(), th.Lock()
        def t1():
            with a:
                with b: pass
        def t2():
            with b:
                with a: pass
        ts = [th.Thread(target=t1), th.Thread(target=t2)]
        for t in ts: t.start()
        for t in ts: t.join()
    dl = [0, 0]
    def rw2(prefix):
        r = core.Scheduler(explore.PrefixChooser(prefix)).run(inv)
        dl[0] += 1; dl[1] += bool(r.deadlock)
        return r.decisions
    explore.dfs(rw2, 1)
    assert dl[1] > 0 and dl[1] < dl[0], dl
    # 3. condition hand-off with timeout: consumer waiting 1s for an item produced after 0.5s virtual gets it at t=0.5
    def handoff():
        c = th.Condition(); items = []
        got = []
        def cons():
            with c:
                while not items:
                    if not c.wait(1.0): break
                got.append((list(items), core.fake_time.monotonic()))
        t = th.Thread(target=cons); t.start()
        core.fake_time.sleep(0.5)
        with c:
            items.append(1); c.notify()
        t.join()
        return got
    seen = set()
    def rw3(prefix):
        r = core.Scheduler(explore.PrefixChooser(prefix)).run(handoff)
        assert r.deadlock is None and not r.uncaught, (r.deadlock, r.uncaught)
        seen.add((tuple(r.value[0][0]), r.value[0][1] - 1000.0))
        return r.decisions
    explore.dfs(rw3, 2)
    assert seen == {((1,), 0.5)}, seen
    # 4. the controlled watchdog copy is bound to the substitutes; SkipRepeatsQueue runs the genuine Queue algorithm
    W = loader.load()
    assert W.bricks.SkipRepeatsQueue.__mro__[1] is core.fake_queue.Queue
    L.set_line_points([])
    return results, dl

if __name__ == "__main__":
    test_diff()
    res, dl = litmus()
    print(f"dsched selftest ok: {n_diff[0]} differential op sequences; litmus {res}; inversion deadlocks {dl[1]}/{dl[0]} schedules")
