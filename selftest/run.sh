#!/bin/bash
# Framework self-tests (run by setup.sh): substitutes of the deterministic scheduler vs the real primitives.
set -e
cd "$(dirname "$0")/.."
export PYTHONPATH="${VERIF_REPO_SRC:-/repo/src}:$PWD" PYTHONHASHSEED=0 PYTHONDONTWRITEBYTECODE=1
/venv/bin/python -B selftest/test_substitutes.py
if [ -f selftest/test_simkernel.py ]; then /venv/bin/python -B selftest/test_simkernel.py; fi
