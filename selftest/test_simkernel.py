"""Differential self-test: the simulated inotify kernel against the real one.  The same operation lists are run on a
real scratch directory watched through raw inotify (ctypes) and on the kernel model; wd-/cookie-normalized
traces must agree."""
import ctypes, os, struct, sys, shutil, tempfile, itertools
sys.path.insert(0, os.path.dirname(os.path.dirname(os.path.abspath(__file__))))
import hypothesis
from hypothesis import given, settings, strategies as st, HealthCheck
from vlib import simkernel as sk
from vlib.dsched import core, explore

libc = ctypes.CDLL(None, use_errno=True)
MASK = 0x2 | 0x4 | 0x40 | 0x80 | 0x100 | 0x200 | 0x400 | 0x8 | 0x10 | 0x20 | 0x02000000  # WATCHDOG_ALL_EVENTS

def parse(buf):
    i = 0; out = []
    while i + 16 <= len(buf):
        wd, mask, cookie, ln = struct.unpack_from("iIII", buf, i)
        name = buf[i+16:i+16+ln].rstrip(b"\0"); i += 16 + ln
        out.append((wd, mask, cookie, name))
    return out

def normalize(events, wdnames):
    cookies = {}
    out = []
    for wd, mask, cookie, name in events:
        if mask & (0x10 | 0x20) and mask & 0x40000000:
            continue  # directory open/close noise caused by listing directories
        c = cookies.setdefault(cookie, len(cookies)) if cookie else 0
        out.append((wdnames.get(wd, "?"), mask, c, name))
    return out

INIT_DIRS = ["a", "a/b", "c"]

def run_real(ops):
    base = tempfile.mkdtemp(prefix="vsk", dir="/dev/shm" if os.path.isdir("/dev/shm") else None)
    try:
        root = os.path.join(base, "w"); os.mkdir(root)
        for d in INIT_DIRS: os.mkdir(os.path.join(root, d))
        fd = libc.inotify_init1(0o4000)  # IN_NONBLOCK
        wdn = {}
        for d in [""] + INIT_DIRS:
            wd = libc.inotify_add_watch(fd, os.fsencode(os.path.join(root, d) if d else root), MASK)
            wdn[wd] = d
        for op in ops:
            k = op[0]; P = lambda p: os.path.join(root, p)
            try:
                if k == "mkdir": os.mkdir(P(op[1]))
                elif k == "create":
                    f = os.open(P(op[1]), os.O_CREAT | os.O_EXCL | os.O_WRONLY); os.close(f)
                elif k == "unlink": os.unlink(P(op[1]))
                elif k == "rmdir": os.rmdir(P(op[1]))
                elif k == "rename": os.rename(P(op[1]), P(op[2]))
                elif k == "rm_watch":
                    for wd, d in list(wdn.items()):
                        if d == op[1]: libc.inotify_rm_watch(fd, wd)
            except OSError:
                return None
        try:
            buf = os.read(fd, 65536)
        except BlockingIOError:
            buf = b""
        os.close(fd)
        return normalize(parse(buf), wdn)
    finally:
        shutil.rmtree(base, ignore_errors=True)

def run_sim(ops):
    def main():
        k = sk.new_kernel()
        k.fs_makedirs(b"/w")
        for d in INIT_DIRS: k.fs_makedirs(b"/w/" + d.encode())
        fd = k.inotify_init()
        wdn = {}
        for d in [""] + INIT_DIRS:
            wd = k.inotify_add_watch(fd, b"/w/" + d.encode() if d else b"/w", MASK); wdn[wd] = d
        for op in ops:
            kk = op[0]; P = lambda p: b"/w/" + p.encode()
            if kk == "mkdir": k.op_mkdir(P(op[1]))
            elif kk == "create": k.op_create(P(op[1]))
            elif kk == "unlink": k.op_unlink(P(op[1]))
            elif kk == "rmdir": k.op_rmdir(P(op[1]))
            elif kk == "rename": k.op_rename(P(op[1]), P(op[2]))
            elif kk == "rm_watch":
                for wd, d in list(wdn.items()):
                    if d == op[1]: k.inotify_rm_watch(fd, wd)
        buf = b"".join(k.fds[fd]["obj"]["queue"])
        return normalize(parse(buf), wdn)
    r = core.Scheduler(explore.PrefixChooser()).run(main)
    assert r.main_exc is None, r.main_exc
    return r.value

@st.composite
def oplists(draw):
    dirs = {"", "a", "a/b", "c"}; files = set(); watched = {"", "a", "a/b", "c"}
    ops = []
    for _ in range(draw(st.integers(1, 7))):
        k = draw(st.sampled_from(["mkdir", "create", "unlink", "rmdir", "rename", "rename", "rm_watch"]))
        names = ["x", "y"]
        if k in ("mkdir", "create"):
            d = draw(st.sampled_from(sorted(dirs))); n = draw(st.sampled_from(names)); p = (d + "/" + n) if d else n
            if p in dirs or p in files: continue
            (dirs if k == "mkdir" else files).add(p); ops.append((k, p))
        elif k == "unlink" and files:
            p = draw(st.sampled_from(sorted(files))); files.discard(p); ops.append((k, p))
        elif k == "rmdir":
            cands = sorted(d for d in dirs if d and not any(x.startswith(d + "/") for x in dirs | files))
            if not cands: continue
            p = draw(st.sampled_from(cands)); dirs.discard(p); watched.discard(p); ops.append((k, p))
        elif k == "rename":
            src = draw(st.sampled_from(sorted((dirs - {""}) | files) or ["-"]))
            if src == "-": continue
            d = draw(st.sampled_from(sorted(x for x in dirs if x != src and not x.startswith(src + "/")))); n = draw(st.sampled_from(names + ["z"]))
            dst = (d + "/" + n) if d else n
            if dst in dirs or dst in files: continue
            if src in files: files.discard(src); files.add(dst)
            else:
                moved = {x for x in dirs | files if x == src or x.startswith(src + "/")}
                for x in moved:
                    (dirs if x in dirs else files).discard(x)
                # contents move along (kinds preserved approximately: only dirs tracked below)
                dirs |= {dst + x[len(src):] for x in moved if x == src or True and not x.rsplit("/",1)[-1] in ()} if False else {dst + x[len(src):] for x in moved}
                watched = {dst + w[len(src):] if (w == src or w.startswith(src + "/")) else w for w in watched}
                return ops  # keep the model simple: stop after a directory rename
            ops.append((k, src, dst))
        elif k == "rm_watch":
            cands = sorted(w for w in watched if w)
            if not cands: continue
            w = draw(st.sampled_from(cands)); watched.discard(w); ops.append((k, w))
    return ops

count = [0]
@hypothesis.seed(int(os.environ.get("VERIF_SEED", "1")))
@settings(max_examples=250, database=None, deadline=None, suppress_health_check=list(HealthCheck))
@given(oplists())
def test(ops):
    real = run_real(ops)
    if real is None: return
    sim = run_sim(ops)
    assert sim == real, (ops, "REAL", real, "SIM", sim)
    count[0] += 1

if __name__ == "__main__":
    test()
    # fixed directory-rename cases
    for ops in ([("rename", "a/b", "c/b")], [("create", "a/x"), ("rename", "a/x", "c/y"), ("unlink", "c/y")], [("rename", "a", "c/a"), ("rmdir", "c/a/b")]):
        real, sim = run_real(ops), run_sim(ops)
        assert real == sim, (ops, real, sim); count[0] += 1
    print(f"simkernel selftest ok: {count[0]} op lists agree with the real kernel")
